"""Developer tool: confirm and evaluate seeded breaking changes produced by independent sub-agents.

  python -m vf.seedtool ingest <PROP> [<outdir> [<worktree>]]   # confirm in the scratch worktree, keep under seeded/
  python -m vf.seedtool run [<seed-id> ...] [--tier quick|thorough]   # apply each kept patch to /repo, run the check, undo
"""
import json
import os
import shutil
import subprocess
import sys
import time

ROOT = os.path.dirname(os.path.dirname(os.path.abspath(__file__)))
SEEDED = os.path.join(ROOT, "seeded")
PYTEST = ["/venv/bin/python", "-m", "pytest", "-q", "-p", "no:cacheprovider", "--timeout=900", "-x"]


def sh(cmd, cwd=None, env=None, timeout=1800):
    e = dict(os.environ)
    if env:
        e.update(env)
    r = subprocess.run(cmd, cwd=cwd, env=e, capture_output=True, text=True, timeout=timeout)
    return r.returncode, r.stdout + r.stderr


def ingest(prop, outdir=None, worktree=None, tag="s"):
    outdir = outdir or "/tmp/seed_out_%s" % prop
    worktree = worktree or "/tmp/seed_%s" % prop
    env = {"PYTHONPATH": worktree + "/src"}
    sh(["git", "-C", worktree, "checkout", "--", "."])
    for i in (1, 2, 3):
        patch = os.path.join(outdir, "patch_%d.diff" % i)
        demo = os.path.join(outdir, "demo_%d.py" % i)
        if not (os.path.exists(patch) and os.path.exists(demo)):
            continue
        sid = "%s-%s%d" % (prop, tag, i)
        rec = {"property": prop, "id": sid}
        rc, out = sh(["git", "-C", worktree, "apply", patch])
        if rc:
            print(sid, "patch does not apply:", out[-300:])
            continue
        try:
            rc, out = sh(PYTEST, cwd=worktree, env=env)
            rec["suite_with_patch"] = out.strip().splitlines()[-1] if out.strip() else ""
            suite_ok = rc == 0 and "85 passed" in out
            rc_demo, out_demo = sh(["/venv/bin/python", demo], cwd=worktree, env=env, timeout=300)
            rec["demo_with_patch_exit"] = rc_demo
            rec["demo_with_patch_tail"] = out_demo.strip()[-300:]
        finally:
            sh(["git", "-C", worktree, "checkout", "--", "."])
        rc_clean, out_clean = sh(["/venv/bin/python", demo], cwd=worktree, env=env, timeout=300)
        rec["demo_clean_exit"] = rc_clean
        ok = suite_ok and rc_demo != 0 and rc_clean == 0
        print("%s suite_ok=%s demo_with_patch=%s demo_clean=%s -> %s" % (sid, suite_ok, rc_demo, rc_clean,
                                                                         "KEEP" if ok else "DROP"))
        if not ok:
            print(out[-400:] if not suite_ok else out_clean[-400:])
            continue
        d = os.path.join(SEEDED, sid)
        os.makedirs(d, exist_ok=True)
        shutil.copy(patch, os.path.join(d, "patch.diff"))
        shutil.copy(demo, os.path.join(d, "demo.py"))
        note = os.path.join(outdir, "note_%d.txt" % i)
        rec["needs"] = open(note).read().strip() if os.path.exists(note) else ""
        rec["confirmed"] = {
            "how": "patch applied in a scratch worktree outside /repo; full suite run with PYTHONPATH=<worktree>/src; "
                   "demo run with and without the patch",
            "suite_with_patch": rec.pop("suite_with_patch"),
            "demo_with_patch_exit": rec.pop("demo_with_patch_exit"),
            "demo_with_patch_tail": rec.pop("demo_with_patch_tail"),
            "demo_clean_exit": rec.pop("demo_clean_exit"),
        }
        rec["breaks"] = prop
        rec["origin"] = "independent sub-agent given only the property text and a scratch worktree"
        with open(os.path.join(d, "meta.json"), "w") as f:
            json.dump(rec, f, indent=1)


def run(ids, tier="quick"):
    rc, out = sh(["git", "-C", "/repo", "status", "--porcelain"])
    if out.strip():
        print("refusing: /repo has uncommitted changes\n" + out)
        return 2
    results = {}
    for sid in sorted(os.listdir(SEEDED)):
        if ids and sid not in ids and sid.split("-")[0] not in ids:
            continue
        d = os.path.join(SEEDED, sid)
        if not os.path.isdir(d):
            continue
        meta = json.load(open(os.path.join(d, "meta.json")))
        prop = meta["breaks"]
        checks = meta.get("run_checks") or [prop]
        rc, out = sh(["git", "-C", "/repo", "apply", os.path.join(d, "patch.diff")])
        if rc:
            print(sid, "patch does not apply to /repo:", out[-200:])
            continue
        try:
            for p in checks:
                t0 = time.time()
                rc, out = sh([os.path.join(ROOT, "verif"), "check", p, tier], env={"VERIF_NO_EVIDENCE": "1"}, timeout=7200)
                vio = [l for l in out.splitlines() if l.startswith("VIOLATION")]
                detail = [l.strip() for l in out.splitlines() if l.startswith("  harness=")]
                verdict = "CAUGHT" if rc == 1 and vio else ("ENGINE-ERROR" if rc == 2 else "MISSED")
                print("%-8s %-14s check=%s tier=%s exit=%d %.0fs %s" % (verdict, sid, p, tier, rc, time.time() - t0,
                                                                        (detail[0][:160] if detail else "")))
                if verdict != "CAUGHT":
                    print(out[-500:])
                results.setdefault(sid, {})[p + ":" + tier] = {"verdict": verdict, "exit": rc, "seconds": int(time.time() - t0),
                                                               "first": detail[0][:300] if detail else ""}
        finally:
            sh(["git", "-C", "/repo", "checkout", "--", "."])
    allp = os.path.join(SEEDED, "results.json")
    try:
        cumulative = json.load(open(allp))
    except FileNotFoundError:
        cumulative = {}
    cumulative.update(results)
    with open(allp, "w") as f:
        json.dump(cumulative, f, indent=1, sort_keys=True)
    with open(os.path.join(SEEDED, "last_run.json"), "w") as f:
        json.dump(results, f, indent=1)
    sh(["git", "-C", "/repo", "status", "--porcelain"])
    return 0


def table():
    """markdown table of the kept seeded changes and the verdict of the last run against each"""
    last = {}
    for name in ("last_run.json", "results.json"):
        try:
            last.update(json.load(open(os.path.join(SEEDED, name))))
        except FileNotFoundError:
            pass
    rows = ["| seed | breaks | what it needs to manifest | caught by (quick tier) |", "|------|--------|---------------------------|------------------------|"]
    for sid in sorted(os.listdir(SEEDED)):
        mp = os.path.join(SEEDED, sid, "meta.json")
        if not os.path.exists(mp):
            continue
        m = json.load(open(mp))
        needs = " ".join(m.get("needs", "").split())
        needs = needs[:260] + ("…" if len(needs) > 260 else "")
        res = last.get(sid, {})
        verdicts = []
        for k, v in res.items():
            first = v.get("first", "")
            ob = ""
            if "obligation=" in first:
                ob = first.split("obligation=")[1].split(" inputs=")[0].strip("'\"")[:90]
                h = first.split("harness=")[1].split(" ")[0]
                ob = " `%s`: %s" % (h, ob)
            verdicts.append("%s %s%s" % (v["verdict"], k.split(":")[0], ob))
        note = m.get("strengthened", "")
        rows.append("| %s | %s | %s | %s%s |" % (sid, m["breaks"], needs.replace("|", "/"), "; ".join(verdicts) or "not run",
                                               (" — " + note) if note else ""))
    print("\n".join(rows))


if __name__ == "__main__":
    a = sys.argv[1:]
    if a and a[0] == "table":
        table()
        sys.exit(0)
    if a and a[0] == "ingest":
        ingest(*a[1:])
    elif a and a[0] == "run":
        tier = "quick"
        if "--tier" in a:
            tier = a[a.index("--tier") + 1]
            a = [x for x in a if x not in ("--tier", tier)]
        sys.exit(run(a[1:], tier))
    else:
        print(__doc__)
