"""C19 - nested __type__ mappings translate bottom-up with exact error locations (Engine S)."""
from cobald.daemon.config.mapping import ConfigurationError, Translator

from ..core import Task
from . import c19_factories as F
from .common import same

PROPERTY = "C19"
MOD = __name__
FUNCTIONS = [
    "cobald.daemon.config.mapping:Translator.translate_hierarchy",
    "cobald.daemon.config.mapping:Translator.construct",
    "cobald.daemon.config.mapping:Translator.load_name",
    "cobald.daemon.config.mapping:ConfigurationError.__init__",
]
MANIFEST = {
    "technique": "symbolic execution of Translator.translate_hierarchy over solver-enumerated tree shapes with symbolic scalars, compared with an independent recursive evaluator",
    "text": "Bounded symbolic model checking of the real Translator: the tree (node kind per position: scalar, list, "
            "plain mapping, __type__ mapping with optional __args__; factory resolution outcome per typed node: ok "
            "via function/class/nested attribute/sub-package, missing module, missing attribute, raising factory) "
            "is a set of symbolic choices resolved by the solver-guided explorer, scalar values are z3 integers. "
            "On every path the result, the global factory call log (order and arguments by identity) and "
            "ConfigurationError.where are compared with an independent evaluator of the statement.",
    "note": "depth <= 3 containers, fan-out <= 2 (inner containers <= 1 child in quick); factories are harness "
            "modules addressed by real dotted names through the real import machinery",
    "design_ref": "DESIGN.md §3 C19",
}
STUBS = []
ASSUMPTIONS = ["keys are strings other than __type__/__args__ for plain items", "factories are importable harness callables"]
OUTSIDE = ["deeper/wider trees", "non-string keys", "YAML syntax (C05 covers the YAML layer)"]

OK_FACTORIES = [
    ("vf.harness.c19_factories.make", "make"),
    ("vf.harness.c19_factories.Widget", "Widget"),
    ("vf.harness.c19_factories.Box.Inner.build", "Box.Inner.build"),
    ("vf.harness.c19pkg.sub.deep", "deep"),
    # a C-implemented factory: no introspectable signature, no call log (only used without __args__)
    ("builtins.dict", "dict"),
]
FAIL = {
    1: ("vf_no_such_module_xyz.thing", None),
    2: ("vf.harness.c19_factories.missing_attr", None),
    3: ("vf.harness.c19_factories.explode", "explode"),
    4: ("", None),  # a __type__ key is present: the mapping is a construction request whatever the value is
    5: (None, None),
}


def BOUNDS(tier):
    return {"depth": 2 if tier == "quick" else "3 (inner containers <= 1 child) and 2 (inner containers <= 2 children)",
            "fan_out": 2, "failing_nodes": "<= 2 per tree"}


class Spec:
    """tree description used by the oracle (independent of the dict/list handed to cobald)"""

    def __init__(self, kind, **kw):
        self.kind = kind
        self.__dict__.update(kw)


class Gen:
    def __init__(self, ctx, depth, inner_max, fail_budget):
        self.ctx, self.depth, self.inner_max = ctx, depth, inner_max
        self.fail_budget = fail_budget
        self.typed = 0
        self.scalars = 0

    def leaf(self, pos, typed):
        ctx = self.ctx
        if not typed:
            self.scalars += 1
            if self.scalars % 4 == 2:
                v = b"by" + bytes([self.scalars])  # YAML !!binary delivers bytes: plain data, not a list of ints
                return v, Spec("scalar", value=v)
            if self.scalars % 4 == 3:
                v = (self.scalars, "tuple")  # python configs deliver tuples: plain data as well
                return v, Spec("scalar", value=v)
            v = ctx.num("val_" + pos, "int")
            return v, Spec("scalar", value=v)
        return self.typed_node(pos, children=[], allow_resolution_failure=True)

    def typed_node(self, pos, children, allow_resolution_failure, args=None):
        ctx = self.ctx
        mode = 0
        if self.fail_budget > 0:
            mode = ctx.choice("mode_" + pos, 6 if allow_resolution_failure else 2)
            if not allow_resolution_failure and mode == 1:
                mode = 3
            if mode:
                self.fail_budget -= 1
        if mode:
            fqdn, name = FAIL[mode]
        else:
            idx = self.typed % len(OK_FACTORIES)
            if OK_FACTORIES[idx][1] == "dict" and args is not None:
                idx = 0
            fqdn, name = OK_FACTORIES[idx]
        self.typed += 1
        cfg = {}
        # __type__ position inside the mapping is arbitrary: first or last, alternating
        first = self.typed % 2 == 0
        if first:
            cfg["__type__"] = fqdn
        argspec = None
        if args is not None:
            cfg["__args__"] = args[0]
            argspec = args[1]
        for key, (c, s) in children:
            cfg[key] = c
        if not first:
            cfg["__type__"] = fqdn
        order = list(cfg.keys())
        return cfg, Spec("typed", mode=mode, name=name, fqdn=fqdn, children=[(k, s) for k, (c, s) in children],
                         args=argspec, order=order)

    def container(self, pos, level):
        """level 1 = root"""
        ctx = self.ctx
        kind = ctx.choice("kind_" + pos, 3)  # list, mapping, typed
        nmax = 2 if level == 1 else self.inner_max
        n = ctx.choice("n_" + pos, nmax + 1)
        kids = []
        for i in range(n):
            cpos = "%s_%d" % (pos, i)
            if level == 1 and i == 1 and not is_sym_scalar(kids[0][0]) and ctx.flag("alias_" + cpos):
                # a YAML anchor/alias delivers the very same object at two positions
                kids.append(kids[0])
                continue
            ck = ctx.choice("child_" + cpos, 3 if level < self.depth else 2)  # scalar, typed leaf, container
            if ck == 2:
                kids.append(self.container(cpos, level + 1))
            else:
                kids.append(self.leaf(cpos, typed=(ck == 1)))
        if kind == 0:
            return [c for c, s in kids], Spec("list", items=[s for c, s in kids])
        keys = (["a", "b"] if self.typed % 2 else ["__meta__", "b"])[:n]  # a dunder-style name is a keyword like any other
        if kind == 1:
            return {k: c for k, (c, s) in zip(keys, kids)}, Spec("map", items=[(k, s) for k, (c, s) in zip(keys, kids)])
        args = None
        a = ctx.choice("args_" + pos, 3) if level == 1 else 0
        if a == 1:
            v = ctx.num("arg_" + pos, "int")
            args = ([v], Spec("list", items=[Spec("scalar", value=v)]))
        elif a == 2:
            v = ctx.num("arg_" + pos, "int")
            c2, s2 = self.typed_node(pos + "_arg1", [], False)
            args = ([v, c2], Spec("list", items=[Spec("scalar", value=v), s2]))
        return self.typed_node(pos, list(zip(keys, kids)), allow_resolution_failure=False, args=args)


def is_sym_scalar(x):
    return not isinstance(x, (list, dict))


def snapshot(x):
    """identity-level picture of a configuration structure (to show the input is left alone)"""
    if isinstance(x, list):
        return ("list", id(x), [snapshot(v) for v in x])
    if isinstance(x, dict):
        return ("dict", id(x), [(k, snapshot(v)) for k, v in x.items()])
    return ("leaf", id(x))


class Failure(Exception):
    def __init__(self, where):
        self.where = where


def oracle(spec, where, log, extra=()):
    """the statement, evaluated independently: -> expected value description.
    extra: construct keywords handed to translate_hierarchy itself; they belong to the mapping it is called on"""
    if spec.kind == "scalar":
        return ("scalar", spec.value)
    if spec.kind == "list":
        out = [None] * len(spec.items)
        for i in reversed(range(len(spec.items))):
            out[i] = oracle(spec.items[i], "%s[%d]" % (where, i), log)
        return ("list", out)
    if spec.kind == "map":
        return ("map", [(k, oracle(s, "%s.%s" % (where, k), log)) for k, s in spec.items])
    # typed: children first, in mapping order
    vals = {}
    for key in spec.order:
        if key == "__type__":
            continue
        if key == "__args__":
            vals[key] = oracle(spec.args, "%s.%s" % (where, key), log)
        else:
            s = dict(spec.children)[key]
            vals[key] = oracle(s, "%s.%s" % (where, key), log)
    if spec.mode in (1, 2, 4, 5):
        raise Failure(where)
    args = vals.pop("__args__", ("list", []))[1]
    kwargs = [(k, vals[k]) for k in spec.order if k in vals] + (list(extra) if where == "" else [])
    if spec.name != "dict":
        log.append((spec.name, args, kwargs))
    if spec.mode == 3:
        raise Failure(where)
    return ("built", spec.name, args, kwargs)


def matches(got, exp):
    tag = exp[0]
    if tag == "scalar":
        return same(got, exp[1]) or got is exp[1]
    if tag == "list":
        return isinstance(got, (list, tuple)) and len(got) == len(exp[1]) and all(matches(g, e) for g, e in zip(got, exp[1]))
    if tag == "map":
        return isinstance(got, dict) and list(got.keys()) == [k for k, _ in exp[1]] and all(matches(got[k], e) for k, e in exp[1])
    if tag == "built" and exp[1] == "dict":
        return (type(got) is dict and list(got.keys()) == [k for k, _ in exp[3]]
                and all(matches(got[k], e) for k, e in exp[3]))
    if tag == "built":
        return (isinstance(got, F.Built) and got.name == exp[1] and matches(list(got.args), ("list", exp[2]))
                and list(got.kwargs.keys()) == [k for k, _ in exp[3]] and all(matches(got.kwargs[k], e) for k, e in exp[3]))
    return False


def tree(ctx, depth, inner_max, fail_budget):
    g = Gen(ctx, depth, inner_max, fail_budget)
    cfg, spec = g.container("r", 1)
    exp_log = []
    extra_kw = {}
    if spec.kind == "typed" and ctx.flag("extra_keyword"):
        extra_kw = {"zz_extra": ctx.num("extra_value", "int")}
    try:
        expected = oracle(spec, "", exp_log, extra=[(k, ("scalar", v)) for k, v in extra_kw.items()])
        exp_fail = None
    except Failure as f:
        expected, exp_fail = None, f.where
    del F.LOG[:]
    before = snapshot(cfg)
    try:
        got = Translator().translate_hierarchy(cfg, **extra_kw)
        err = None
    except ConfigurationError as e:
        got, err = None, e
    ctx.reach()
    ctx.require(snapshot(cfg) == before, "the configuration handed in is left unchanged")
    log = list(F.LOG)
    ctx.observe("calls", [n for n, _, _ in log])
    ctx.observe("where", None if err is None else err.where)
    ctx.require([n for n, _, _ in log] == [n for n, _, _ in exp_log],
                "factories are called exactly once each, children before parents, later list items first")
    for (n, a, k), (en, ea, ek) in zip(log, exp_log):
        ctx.require(matches(list(a), ("list", ea)) and list(k.keys()) == [x for x, _ in ek]
                    and all(matches(k[x], e) for x, e in ek),
                    "factory receives __args__ as positionals and the remaining items as keywords")
    if exp_fail is None:
        ctx.require(err is None, "a resolvable hierarchy translates without error")
        if err is None:
            ctx.require(matches(got, expected), "plain data unchanged, every __type__ mapping replaced by its factory's result")
    else:
        ctx.require(err is not None, "a failing or unresolvable factory is reported as a configuration error")
        if err is not None:
            ctx.require(err.where == exp_fail, "the error location is the exact path of the offending element")


def tasks(tier, seed):
    if tier == "quick":
        return [Task(MOD, "tree", dict(depth=2, inner_max=1, fail_budget=2), model="Z", shards=16,
                     weight=10, witness_every=3)]
    return [Task(MOD, "tree", dict(depth=3, inner_max=1, fail_budget=2), model="Z", shards=64,
                 weight=10, witness_every=11),
            Task(MOD, "tree", dict(depth=2, inner_max=2, fail_budget=2), model="Z", shards=32,
                 weight=10, witness_every=11)]


PREDICATES = {}
