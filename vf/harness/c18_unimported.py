"""Never imported by the harness: its presence in sys.modules after a load() is a violation."""
