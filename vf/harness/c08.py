"""C08 - controllers move demand only in the documented direction and amount (Engine S; R)."""
import builtins

import trio

import cobald.controller.stepwise as stepwise_mod
import cobald.controller.switch as switch_mod
from cobald.controller.linear import LinearController
from cobald.controller.relative_supply import RelativeSupplyController
from cobald.controller.stepwise import Stepwise, UnboundStepwise
from cobald.controller.switch import DemandSwitch
from cobald.interfaces import Controller
from cobald.utility import InvariantError

from ..core import Task
from ..symx import And, Implies, Not, Or, SNum, XF, is_sym
from .common import FakeTrio, RecPool, numeric_stubs, patched, same
import cobald.controller.linear as _lin_mod
import cobald.controller.relative_supply as _rel_mod

# int() / float() / math.floor / math.ceil as seen from the modules under test act on proxies (stubs, listed in evidence)
for _m in (_lin_mod, _rel_mod, stepwise_mod, switch_mod):
    for _mod, _name, _val in numeric_stubs(_m):
        setattr(_mod, _name, _val)

PROPERTY = "C08"
MOD = __name__
FUNCTIONS = [
    "cobald.controller.linear:LinearController.__init__",
    "cobald.controller.linear:LinearController.regulate",
    "cobald.controller.relative_supply:RelativeSupplyController.__init__",
    "cobald.controller.relative_supply:RelativeSupplyController.regulate",
    "cobald.controller.stepwise:RangeSelector.__init__",
    "cobald.controller.stepwise:RangeSelector.get_rule",
    "cobald.controller.stepwise:RangeSelector._compile_lookup",
    "cobald.controller.stepwise:Stepwise.__init__",
    "cobald.controller.stepwise:Stepwise.run",
    "cobald.controller.stepwise:UnboundStepwise.add",
    "cobald.controller.stepwise:UnboundStepwise.__call__",
    "cobald.controller.switch:DemandSwitch.__init__",
    "cobald.controller.switch:DemandSwitch.regulate",
    "cobald.utility:enforce",
    "cobald.utility:pairwise",
]
MANIFEST = {
    "technique": "symbolic execution of the controllers on z3 Real proxies; SMT decides direction/amount/selection obligations on every path",
    "text": "Bounded symbolic model checking of LinearController, RelativeSupplyController, Stepwise "
            "(through run() with a sleep stub) and DemandSwitch: pool state, all parameters, intervals and "
            "up to 3 (thorough 4) thresholds in arbitrary declaration order are symbolic reals, so values "
            "exactly on a threshold and every ordering/tie are regions of one query; z3 proves direction, "
            "amount and 'exactly one rule/slave, the right one, with the right arguments' for all values; utilisation and allocation may also be nan (a concrete nan selected by a symbolic flag). Enumerated next to it (concrete, reported as such): DemandSwitch's structural rejections and 105 IEEE neighbours of the LinearController thresholds.",
    "note": "floats as exact reals; supply >= 0, interval >= 0; asserts enabled (no python -O); "
            "hash of threshold proxies allowed only inside RangeSelector._compile_lookup, which never looks a key up",
    "design_ref": "DESIGN.md §3 C08",
}
STUBS = ["int / float / math.floor / math.ceil (as seen from the modules under test) accept number proxies", 
    "trio (as seen from cobald.controller.stepwise) -> sleep yields ('sleep', d) to the driver",
    "isinstance (as seen from cobald.controller.switch) accepts number proxies for int/float",
    "hash() of threshold proxies enabled for RangeSelector._compile_lookup (dict is only iterated)",
]
ASSUMPTIONS = [
    "pool supply >= 0, interval >= 0, all values finite reals; utilisation and allocation of the linear and relative-supply harnesses may also be nan (a concrete nan selected by a symbolic flag)",
    "constructor assertions are active (no python -O)",
    "rules do not modify the pool (documented)",
]
OUTSIDE = ["negative supply", "IEEE rounding", "more than 4 thresholds/slaves"]


def BOUNDS(tier):
    return {"thresholds": "0..3" if tier == "quick" else "0..4",
            "steps": "1 (2 for <= 2 slaves / <= 1 rule)" if tier == "quick" else "2 (3 for <= 2 slaves)"}


def _pool(ctx, sfx=""):
    p = RecPool(demand=ctx.num("demand" + sfx), supply=ctx.num("supply" + sfx),
                utilisation=ctx.num("util" + sfx), allocation=ctx.num("alloc" + sfx))
    ctx.assume(p.supply >= 0)
    return p


def _restate(ctx, p, sfx):
    p._demand = ctx.num("demand" + sfx)
    p.supply = ctx.num("supply" + sfx)
    p.utilisation = ctx.num("util" + sfx)
    p.allocation = ctx.num("alloc" + sfx)
    ctx.assume(p.supply >= 0)


def _maybe_nan(ctx, p, sfx):
    """a pool may report nan for utilisation/allocation (0/0 of an empty pool): nan is neither below nor above
    anything, so neither condition holds.  The nan is a concrete float chosen by a symbolic flag."""
    if ctx.flag("util_is_nan" + sfx):
        p.utilisation = float("nan")
    if ctx.flag("alloc_is_nan" + sfx):
        p.allocation = float("nan")


# -- LinearController -----------------------------------------------------------------------------
def linear(ctx, steps=1):
    p = _pool(ctx)
    low, high, rate, ival0 = ctx.num("low"), ctx.num("high"), ctx.num("rate"), ctx.num("interval0")
    ctx.assume(And(rate > 0, low <= high))
    c = LinearController(p, low_utilisation=low, high_allocation=high, rate=rate, interval=ival0)
    ctx.require(same(c.interval, ival0), "interval stored")
    for k in range(steps):
        tag = "step%d: " % k
        if k:
            _restate(ctx, p, "_%d" % k)
        _maybe_nan(ctx, p, "_%d" % k)
        ival = ctx.num("interval_%d" % k)
        ctx.assume(ival >= 0)
        old, n0 = p.demand, len(p.writes)
        util, alloc = p.utilisation, p.allocation
        c.regulate(ival)
        new = p.demand
        ctx.observe(tag + "demand", new)
        d = new - old
        amount = rate * ival
        below, above = util < low, alloc > high
        ctx.require(And(d <= amount, -d <= amount), tag + "|change| <= rate*interval")
        ctx.require(Implies(d < 0, below), tag + "downwards only if utilisation < low_utilisation")
        ctx.require(Implies(d > 0, above), tag + "upwards only if allocation > high_allocation")
        ctx.require(d == -amount, tag + "exactly -rate*interval when only utilisation is low",
                    antecedent=And(below, Not(above)))
        ctx.require(d == amount, tag + "exactly +rate*interval when only allocation is high",
                    antecedent=And(above, Not(below)))
        ctx.require(And(d <= amount, -d <= amount, Or(d == amount, d == -amount)),
                    tag + "one full step in either direction when both hold",
                    antecedent=And(above, below))
        if len(p.writes) == n0:
            ctx.require(And(Not(below), Not(above)), tag + "no write only when neither condition holds")
        else:
            ctx.require(len(p.writes) == n0 + 1, tag + "at most one demand write per step")
            ctx.require(Or(below, above), tag + "a write only when a condition holds")
    ctx.reach()


def linear_ctor(ctx):
    p = _pool(ctx)
    low, high, rate = ctx.num("low"), ctx.num("high"), ctx.num("rate")
    ok = And(rate > 0, low <= high)
    try:
        LinearController(p, low_utilisation=low, high_allocation=high, rate=rate)
        raised = False
    except AssertionError:
        raised = True
    ctx.reach()
    ctx.observe("raised", raised)
    if raised:
        ctx.require(Not(ok), "constructor rejected valid parameters")
    else:
        ctx.require(ok, "constructor accepted rate <= 0 or low_utilisation > high_allocation")


# -- RelativeSupplyController -------------------------------------------------------------------
def relative(ctx, steps=1):
    p = _pool(ctx)
    low, high = ctx.num("low"), ctx.num("high")
    ls, hs = ctx.num("low_scale"), ctx.num("high_scale")
    ctx.assume(And(low <= high, ls < 1, hs > 1))
    c = RelativeSupplyController(p, low_utilisation=low, high_allocation=high, low_scale=ls,
                                 high_scale=hs, interval=ctx.num("interval0"))
    for k in range(steps):
        tag = "step%d: " % k
        if k:
            _restate(ctx, p, "_%d" % k)
        _maybe_nan(ctx, p, "_%d" % k)
        ival = ctx.num("interval_%d" % k)
        ctx.assume(ival >= 0)
        n0 = len(p.writes)
        util, alloc, supply = p.utilisation, p.allocation, p.supply
        c.regulate(ival)
        new = p.demand
        ctx.observe(tag + "demand", new)
        below, above = util < low, alloc > high
        ctx.require(len(p.writes) == n0 + 1, tag + "exactly one demand write per step")
        ctx.require(new == supply * ls, tag + "supply*low_scale when only utilisation is low",
                    antecedent=And(below, Not(above)))
        ctx.require(new == supply * hs, tag + "supply*high_scale when only allocation is high",
                    antecedent=And(above, Not(below)))
        ctx.require(new == supply, tag + "supply when neither holds", antecedent=And(Not(above), Not(below)))
        ctx.require(Or(new == supply * ls, new == supply * hs), tag + "one of the two scales when both hold",
                    antecedent=And(above, below))
    ctx.reach()


def relative_ctor(ctx):
    p = _pool(ctx)
    low, high = ctx.num("low"), ctx.num("high")
    ls, hs = ctx.num("low_scale"), ctx.num("high_scale")
    ok = And(low <= high, ls < 1, hs > 1)
    try:
        RelativeSupplyController(p, low_utilisation=low, high_allocation=high, low_scale=ls,
                                 high_scale=hs)
        raised = False
    except AssertionError:
        raised = True
    ctx.reach()
    ctx.observe("raised", raised)
    if raised:
        ctx.require(Not(ok), "constructor rejected valid parameters")
    else:
        ctx.require(ok, "constructor accepted scales on the wrong side of 1 or low > high")


# -- Stepwise ------------------------------------------------------------------------------------
class Rule:
    def __init__(self, name, result):
        self.name, self.result, self.calls = name, result, []

    def __call__(self, pool, interval):
        self.calls.append((pool, interval))
        return self.result

    def __repr__(self):
        return "<rule %s>" % self.name


def stepwise(ctx, k, via="ctor", steps=1):
    """k thresholds in declaration order (any order, any tie), one loop iteration through run()"""
    p = _pool(ctx)
    ival = ctx.num("interval")
    ctx.assume(ival >= 0)
    thresholds = [ctx.num("t%d" % i) for i in range(k)]
    results = []
    for i in range(k + 1):
        results.append(None if ctx.flag("none%d" % i) else ctx.num("r%d" % i))
    base = Rule("base", results[0])
    rules = [Rule("rule%d" % i, results[i + 1]) for i in range(k)]
    tie = Or(*[thresholds[i] == thresholds[j] for i in range(k) for j in range(i + 1, k)]) if k > 1 else False
    zero = Or(*[t == 0 for t in thresholds]) if k else False
    ctx.allow_hash = True  # (low, high) keys are stored, the dict is only ever iterated
    # another controller with its own rule table lives in the same process: tables are per controller
    other_rule = Rule("other", None)
    Stepwise(RecPool(), other_rule, (0.5, other_rule), (5, other_rule), interval=1)
    try:
        if via == "ctor":
            c = Stepwise(p, base, *zip(thresholds, rules), interval=ival)
        else:
            ub = UnboundStepwise(base)
            for t, r in zip(thresholds, rules):
                ub.add(r, supply=t)
            c = ub(p, interval=ival)
        built = True
    except (ValueError, TypeError):
        built = False
    finally:
        ctx.allow_hash = False
    ctx.observe("built", built)
    if not built:
        ctx.reach()
        ctx.require(Or(tie, zero), "constructor rejected distinct non-zero thresholds")
        return
    ctx.require(Not(tie), "constructor accepted tied thresholds")
    with patched((stepwise_mod, "trio", FakeTrio(trio))):
        coro = c.run()
        try:
            for s in range(steps):
                tag = "step%d: " % s
                if s:
                    _restate(ctx, p, "_%d" % s)
                    for r in [base] + rules:
                        r.calls.clear()
                supply, old, n0 = p.supply, p.demand, len(p.writes)
                y = coro.send(None)
                ctx.require(y[0] == "sleep" and same(y[1], ival), tag + "sleeps exactly one interval after the step")
                called = [r for r in [base] + rules if r.calls]
                ctx.observe(tag + "called", [r.name for r in called])
                ctx.require(len(called) == 1 and len(called[0].calls) == 1, tag + "exactly one rule invoked, once")
                if len(called) != 1:
                    return
                ch = called[0]
                ctx.require(ch.calls[0][0] is p and same(ch.calls[0][1], ival), tag + "rule received (target, interval)")
                if ch is base:
                    ctx.require(And(*[supply < t for t in thresholds]) if k else True,
                                tag + "base rule only when supply is below every threshold")
                else:
                    i = rules.index(ch)
                    ti = thresholds[i]
                    ctx.require(And(ti <= supply, *[Or(t > supply, t <= ti) for t in thresholds]),
                                tag + "rule with the greatest threshold not above supply")
                if ch.result is None:
                    ctx.require(len(p.writes) == n0 and same(p.demand, old), tag + "demand untouched when the rule returns None")
                else:
                    ctx.require(len(p.writes) == n0 + 1 and same(p.demand, ch.result),
                                tag + "demand set to what the rule returned")
        finally:
            coro.close()
    ctx.reach()


# -- DemandSwitch -------------------------------------------------------------------------------
class Slave(Controller):
    def __init__(self, name, target=None):
        super().__init__(target)
        self.name, self.calls = name, []

    def regulate(self, interval):
        self.calls.append(interval)

    def __repr__(self):
        return "<slave %s>" % self.name


def _isinstance(obj, types):
    if isinstance(obj, (SNum, XF)) and types == (int, float):
        return True
    return builtins.isinstance(obj, types)


def switch(ctx, k, steps=1):
    p = _pool(ctx)
    ival = ctx.num("interval")
    thresholds = [ctx.num("t%d" % i) for i in range(k)]
    default = Slave("default")
    slaves = [Slave("slave%d" % i, target=(p if i % 2 else None)) for i in range(k)]
    tie = Or(*[thresholds[i] == thresholds[j] for i in range(k) for j in range(i + 1, k)]) if k > 1 else False
    args = []
    for t, s in zip(thresholds, slaves):
        args += [t, s]
    ctx.allow_hash = True  # thresholds may be stored as keys; identity hash: distinct proxies never merge
    with patched((switch_mod, "isinstance", _isinstance)):
        try:
            c = DemandSwitch(p, default, *args, interval=ival)
            built = True
        except (TypeError, InvariantError):  # sorted() falls through to comparing controllers on a tie
            built = False
    ctx.allow_hash = False
    ctx.observe("built", built)
    if not built:
        ctx.reach()
        ctx.require(tie, "constructor rejected distinct thresholds")
        return
    ctx.require(all(s.target is p for s in [default] + slaves), "every slave acts on the switch's own target")
    ctx.require(c.target is p, "switch keeps its target")
    for s in range(steps):
        tag = "step%d: " % s
        if s:
            _restate(ctx, p, "_%d" % s)
        for x in [default] + slaves:
            x.calls.clear()
        step_ival = ctx.num("interval_%d" % s)
        demand, n0 = p.demand, len(p.writes)
        c.regulate(step_ival)
        called = [x for x in [default] + slaves if x.calls]
        ctx.observe(tag + "called", [x.name for x in called])
        ctx.require(len(called) == 1 and len(called[0].calls) == 1, tag + "exactly one controller delegated to, once")
        if len(called) != 1:
            return
        ch = called[0]
        ctx.require(same(ch.calls[0], step_ival), tag + "delegate received the interval")
        ctx.require(len(p.writes) == n0, tag + "the switch itself never writes demand")
        if ch is default:
            ctx.require(And(*[demand < t for t in thresholds]) if k else True,
                        tag + "default only when demand is below every threshold")
        else:
            i = slaves.index(ch)
            ti = thresholds[i]
            ctx.require(And(ti <= demand, *[Or(t > demand, t <= ti) for t in thresholds]),
                        tag + "slave with the greatest threshold not above demand")
    ctx.reach()


def tasks(tier, seed):
    out = []
    steps = 2 if tier == "quick" else 3  # consecutive steps with fresh pool states: no state may be carried over
    kmax = 3 if tier == "quick" else 4
    out.append(Task(MOD, "linear", dict(steps=steps)))
    out.append(Task(MOD, "linear_ctor"))
    out.append(Task(MOD, "relative", dict(steps=steps)))
    out.append(Task(MOD, "relative_ctor"))
    for k in range(0, kmax + 1):
        for via in ("ctor", "unbound"):
            out.append(Task(MOD, "stepwise", dict(k=k, via=via, steps=(2 if k <= 1 else 1) if tier == "quick" else (2 if k <= 2 else 1)),
                            weight=4 ** k, shards=1 if k < 4 else 4))
        # selection must not depend on history: several steps with a fresh pool state each
        out.append(Task(MOD, "switch", dict(k=k, steps=(2 if k <= 2 else 1) if tier == "quick" else (3 if k <= 2 else 2)),
                        weight=3 ** k * 4, shards=1 if k < 3 else 4))
    return out


def extra(tier, seed):
    """structural rejections of DemandSwitch (finite catalogue, enumerated)"""
    errs = []
    n = 0

    def bad(label, fn, exc):
        nonlocal n
        n += 1
        try:
            fn()
        except exc:
            return
        except Exception as e:
            errs.append(_v(label + " (raised %s)" % type(e).__name__))
            return
        errs.append(_v(label))

    def _v(label):
        return {"harness": "switch_ctor", "label": label, "inputs": {}, "params": {},
                "status": "confirmed", "property": PROPERTY, "kind": "custom", "module": MOD}

    p, q = RecPool(), RecPool()
    bad("odd slave list accepted", lambda: DemandSwitch(p, Slave("d"), 1), InvariantError)
    bad("odd slave list accepted", lambda: DemandSwitch(p, Slave("d"), 1, Slave("a"), 2), InvariantError)
    bad("non-numeric threshold accepted", lambda: DemandSwitch(p, Slave("d"), "1", Slave("a")), InvariantError)
    bad("non-controller slave accepted", lambda: DemandSwitch(p, Slave("d"), 1, object()), InvariantError)
    bad("foreign target of a slave accepted", lambda: DemandSwitch(p, Slave("d"), 1, Slave("a", q)), InvariantError)
    bad("foreign target of the default accepted", lambda: DemandSwitch(p, Slave("d", q), 1, Slave("a")), InvariantError)
    # IEEE neighbours of the thresholds (enumerated, concrete): the symbolic run treats floats as reals, and code
    # that pushes values through C math functions cannot be executed on proxies at all
    import math
    m = 0
    for low, high in ((0.5, 0.5), (0.3, 0.3), (0.25, 0.75), (1e-9, 1.0), (123456.789, 123456.789)):
        for rate, interval in ((1, 1), (0.5, 4), (3, 0.1)):
            for util, alloc, sign in (
                (math.nextafter(low, -math.inf), high, -1), (low * (1 - 1e-12), high, -1), (low, math.nextafter(high, math.inf), +1),
                (low, high * (1 + 1e-12), +1), (low, high, 0), (math.nextafter(low, math.inf), math.nextafter(high, -math.inf), 0),
                (0.1 + 0.2 if low == 0.3 else low, 0.1 + 0.2 if high == 0.3 else high, +1 if high == 0.3 else 0),
            ):
                m += 1
                pool = RecPool(demand=100.0, supply=1.0, utilisation=util, allocation=alloc)
                LinearController(pool, low_utilisation=low, high_allocation=high, rate=rate, interval=interval).regulate(interval)
                want = 100.0 + sign * rate * interval
                if pool.demand != want:
                    errs.append({"harness": "linear_ieee_neighbours", "label": "direction and amount at IEEE neighbours of the thresholds",
                                 "inputs": {"low": low, "high": high, "utilisation": util, "allocation": alloc, "rate": rate,
                                            "interval": interval, "got": pool.demand, "want": want},
                                 "params": {}, "status": "confirmed", "property": PROPERTY, "kind": "custom", "module": MOD})
    return {"violations": errs, "switch_ctor_rejections_checked": n, "linear_ieee_neighbour_states": m}


def replay(v):
    r = extra("quick", 0)
    hit = [x for x in r["violations"] if x["label"] == v["label"] and (v.get("harness") != "linear_ieee_neighbours" or x["inputs"] == v["inputs"])]
    print("REPRODUCED" if hit else "not reproduced on this tree")
    return 1 if hit else 0


PREDICATES = {}
