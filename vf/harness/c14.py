"""C14 - config sections are validated, then digested once each in constraint order (Engine S)."""
import itertools

import cobald.daemon.config.mapping as mapping_mod
import cobald.daemon.core.config as config_mod
from cobald.daemon.config.mapping import ConfigurationError, load_configuration
from cobald.daemon.core.config import load_section_plugins
from cobald.daemon.plugins import constraints

from ..core import Task
from ..symx import And, Implies, Not, Or
from .common import patched, same

PROPERTY = "C14"
MOD = __name__
FUNCTIONS = [
    "cobald.daemon.core.config:load_section_plugins",
    "cobald.daemon.config.mapping:SectionPlugin.load",
    "cobald.daemon.config.mapping:load_configuration",
    "cobald.daemon.plugins:constraints",
    "cobald.daemon.plugins:PluginRequirements.__init__",
]
MANIFEST = {
    "technique": "symbolic execution of load_section_plugins/load_configuration with the constraint graph, required/present flags as z3 Booleans/Ints and section contents as z3 Ints",
    "text": "Bounded symbolic model checking of plugin ordering and section validation: for n <= 3 (thorough 4) "
            "installed plugins the before/after declaration of every pair (5 ways incl. none), constraints "
            "naming absent plugins, required flags, presence of each section, an unknown section and a logging "
            "section are symbolic choices resolved by the solver-guided explorer; section contents and digest "
            "results are symbolic integers. On every feasible path the call log is compared with the "
            "statement (validated first, once each, exact content, constraint order, results kept).",
    "note": "cyclic constraint graphs are assumed away (the statement quantifies over acyclic graphs); "
            "get_entrypoints and configure_logging are replaced by harness stubs; toposort is executed as is",
    "design_ref": "DESIGN.md §3 C14",
}
STUBS = ["get_entrypoints (as seen from cobald.daemon.core.config) -> fake entry points of the harness",
         "configure_logging (as seen from cobald.daemon.config.mapping) -> recorder"]
ASSUMPTIONS = ["acyclic before/after graph", "entry points have no extras",
               "before=X on plugin P means P runs before X (SectionPlugin.load docstring and code)"]
OUTSIDE = ["more than 4 plugins", "cyclic constraint graphs", "real entry point discovery"]


def BOUNDS(tier):
    return {"plugins": "0..3" if tier == "quick" else "0..4 (absent-target constraints for n<=3)"}


class EP:
    extras = None

    def __init__(self, name, digest):
        self.name, self._digest = name, digest

    def load(self):
        return self._digest


NAMES = ["alpha", "beta", "gamma", "delta"]
ABSENT = ["ghost", "phantom"]


def _acyclic(n, edges):
    # edges: set of (a, b): a before b
    order, left = [], set(range(n))
    while left:
        free = [x for x in left if not any((y, x) in edges for y in left)]
        if not free:
            return False
        left.remove(free[0])
    return True


def _build(ctx, n, log, with_constraints, with_absent, results_flag=True, required=None, fix=None):
    """-> (entry points, edges{(i,j)}, digests)"""
    before = {i: set() for i in range(n)}
    after = {i: set() for i in range(n)}
    edges = set()
    if with_constraints:
        for i, j in itertools.combinations(range(n), 2):
            c = ctx.choice("rel_%d_%d" % (i, j), 5, fixed=(fix or {}).get("rel_%d_%d" % (i, j)))
            if c == 1:  # i before j, declared on i
                before[i].add(NAMES[j]); edges.add((i, j))
            elif c == 2:  # i before j, declared on j
                after[j].add(NAMES[i]); edges.add((i, j))
            elif c == 3:  # j before i, declared on j
                before[j].add(NAMES[i]); edges.add((j, i))
            elif c == 4:  # j before i, declared on i
                after[i].add(NAMES[j]); edges.add((j, i))
        if not _acyclic(n, edges):
            ctx.assume(False)
    if with_absent:
        for i in range(n):
            a = ctx.choice("absent_%d" % i, 3)
            if a == 1:
                before[i].add(ABSENT[i % 2])
            elif a == 2:
                after[i].add(ABSENT[i % 2])
    eps, results = [], []
    for i in range(n):
        res = None
        if results_flag is True and not ctx.flag("result_none_%d" % i):
            res = ctx.num("result_%d" % i, "int")
        elif results_flag == "alternate" and i % 2 == 0:
            res = ctx.num("result_%d" % i, "int")
        results.append(res)

        def digest(content, _i=i, _res=res):
            log.append((_i, content))
            return _res

        req = bool(required[i]) if required is not None else False
        if before[i] or after[i] or req or i % 2 == 0:
            # the declared type is Iterable[str]: sets, lists, and one-shot iterators / generators alike
            form = (i + len(before[i]) + 2 * len(after[i])) % 3
            b_arg = [set(before[i]), sorted(before[i]), iter(sorted(before[i]))][form]
            a_arg = [set(after[i]), (x for x in sorted(after[i])), tuple(sorted(after[i]))][form]
            digest = constraints(before=b_arg, after=a_arg, required=req)(digest)
        eps.append(EP(NAMES[i], digest))
    return eps, edges, results


def ordering(ctx, n, absent, fix=None):
    """all sections present; the constraint graph is symbolic"""
    log = []
    eps, edges, results = _build(ctx, n, log, True, absent, results_flag="alternate", fix=fix)
    # installed order is arbitrary too: rotate by a symbolic amount
    rot = ctx.choice("rotation", n) if n > 1 else 0
    eps_inst = eps[rot:] + eps[:rot]
    with patched((config_mod, "get_entrypoints", lambda group: list(eps_inst))):
        plugins = load_section_plugins("verif.sections")
    ctx.require(sorted(p.section for p in plugins) == sorted(NAMES[:n]),
                "every installed plugin is loaded exactly once, absent ones are not invented")
    contents = {NAMES[i]: ctx.num("content_%d" % i, "int") for i in range(n)}
    with patched((mapping_mod, "configure_logging", lambda m: log.append(("logging", m)))):
        out = load_configuration(dict(contents), plugins)
    ctx.reach()
    order = [i for i, _ in log]
    ctx.observe("order", order)
    ctx.require(sorted(order) == list(range(n)), "every plugin with a section is called exactly once")
    for i, content in log:
        ctx.require(same(content, contents[NAMES[i]]), "each plugin receives exactly its section's content")
    for a, b in edges:
        if a in order and b in order:
            ctx.require(order.index(a) < order.index(b), "call order satisfies every before/after constraint")
    kept = {p.section: v for p, v in out.items()}
    for i in range(n):
        if results[i] is None:
            ctx.require(NAMES[i] not in kept, "None results are not kept")
        else:
            ctx.require(NAMES[i] in kept and same(kept[NAMES[i]], results[i]), "non-None results are kept")


def validation(ctx, n):
    """presence / required / unknown / logging are symbolic; no constraints"""
    log = []
    required = [ctx.flag("required_%d" % i) for i in range(n)]
    eps, _, results = _build(ctx, n, log, False, False, required=required)
    with patched((config_mod, "get_entrypoints", lambda group: list(eps))):
        plugins = load_section_plugins("verif.sections")
    present = [ctx.flag("present_%d" % i) for i in range(n)]
    unknown = ctx.flag("unknown_section")
    logging_sec = ctx.flag("logging_section")
    data = {}
    contents = {}
    # insertion order of the mapping is arbitrary: unknown section first or last
    unknown_first = ctx.flag("unknown_first") if unknown else False
    if unknown and unknown_first:
        data["mystery"] = ctx.num("mystery", "int")
    for i in range(n):
        if present[i]:
            # YAML "section:" with nothing after it delivers None; "section: {}" an empty mapping
            kind = ctx.choice("content_kind_%d" % i, 3)
            contents[i] = data[NAMES[i]] = (ctx.num("content_%d" % i, "int") if kind == 0 else (None if kind == 1 else {}))
    if logging_sec:
        data["logging"] = {"version": 1}
    if unknown and not unknown_first:
        data["mystery"] = ctx.num("mystery", "int")
    try:
        with patched((mapping_mod, "configure_logging", lambda m: log.append(("logging", m)))):
            out = load_configuration(data, plugins)
        err = None
    except ConfigurationError as e:
        err = e
    ctx.reach()
    digests = [(i, c) for i, c in log if i != "logging"]
    ctx.observe("error", None if err is None else str(err.what)[:40])
    ctx.observe("digested", [i for i, _ in digests])
    missing_required = [i for i in range(n) if required[i] and not present[i]]
    if unknown:
        ctx.require(err is not None, "an unclaimed section fails loading with a configuration error")
        ctx.require(not digests, "an unclaimed section fails before any plugin has run")
        return
    if missing_required:
        ctx.require(err is not None, "a missing required section fails loading with a configuration error")
        return
    ctx.require(err is None, "a valid configuration loads without error")
    if err is not None:
        return
    ctx.require(sorted(i for i, _ in digests) == [i for i in range(n) if present[i]],
                "plugins with a section are called exactly once, plugins without are not called")
    for i, c in digests:
        ctx.require(same(c, contents[i]) or c is contents[i], "each plugin receives exactly its section's content")
    ctx.require([x for x in log if x[0] == "logging"] == ([("logging", {"version": 1})] if logging_sec else []),
                "the logging section is handed to the logging configuration, exactly once")
    kept = {p.section: v for p, v in out.items()}
    for i in range(n):
        if present[i] and results[i] is not None:
            ctx.require(NAMES[i] in kept and same(kept[NAMES[i]], results[i]), "non-None results are kept")
        else:
            ctx.require(NAMES[i] not in kept, "nothing is kept for absent sections or None results")


def combined(ctx):
    """two plugins: constraints (incl. absent targets) together with presence/required/unknown"""
    n = 2
    log = []
    required = [ctx.flag("required_%d" % i) for i in range(n)]
    eps, edges, results = _build(ctx, n, log, True, True, results_flag="alternate", required=required)
    with patched((config_mod, "get_entrypoints", lambda group: list(eps))):
        plugins = load_section_plugins("verif.sections")
    present = [ctx.flag("present_%d" % i) for i in range(n)]
    unknown = ctx.flag("unknown_section")
    data = {}
    for i in range(n):
        if present[i]:
            data[NAMES[i]] = ctx.num("content_%d" % i, "int") if i else None
    if unknown:
        data["mystery"] = 0
    try:
        load_configuration(data, plugins)
        err = None
    except ConfigurationError as e:
        err = e
    ctx.reach()
    order = [i for i, _ in log]
    ctx.observe("order", order)
    if unknown:
        ctx.require(err is not None and not order, "an unclaimed section fails before any plugin has run")
        return
    if any(required[i] and not present[i] for i in range(n)):
        ctx.require(err is not None, "a missing required section fails loading with a configuration error")
    else:
        ctx.require(err is None, "a valid configuration loads without error")
        ctx.require(sorted(order) == [i for i in range(n) if present[i]], "called exactly once iff present")
    for a, b in edges:
        if a in order and b in order:
            ctx.require(order.index(a) < order.index(b), "call order satisfies every before/after constraint")


def tasks(tier, seed):
    out = []
    nmax = 3 if tier == "quick" else 4
    for n in range(0, nmax + 1):
        if n < 3:
            shards = [None]
        elif n == 3:
            shards = [{"rel_0_1": a} for a in range(5)]
        else:
            shards = [{"rel_0_1": a, "rel_0_2": b} for a in range(5) for b in range(5)]
        for fix in shards:
            out.append(Task(MOD, "ordering", dict(n=n, absent=False, fix=fix), model="Z", weight=5 ** n,
                            witness_every=1 if n < 4 else 7))
            if 1 <= n <= 3:
                out.append(Task(MOD, "ordering", dict(n=n, absent=True, fix=fix), model="Z",
                                weight=15 ** n, witness_every=1 if n < 3 else 5))
    for n in range(0, (3 if tier == "quick" else 4)):
        out.append(Task(MOD, "validation", dict(n=n), model="Z", weight=20 ** n,
                        witness_every=1 if n < 3 else 4))
    out.append(Task(MOD, "combined", model="Z", weight=500, witness_every=2))
    return out


PREDICATES = {}
