"""C16 - decorators are transparent except for what they are meant to change (Engine S; R)."""
import itertools
import logging
import warnings

from cobald.decorator.buffer import Buffer
from cobald.decorator.logger import Logger
from cobald.decorator.standardiser import Standardiser
from cobald.interfaces import PoolDecorator

from ..core import Task
from ..symx import And, Implies, Not, Or
from .common import RecPool, same

PROPERTY = "C16"
MOD = __name__
FUNCTIONS = [
    "cobald.interfaces._proxy:PoolDecorator.__init__",
    "cobald.interfaces._proxy:PoolDecorator.supply",
    "cobald.interfaces._proxy:PoolDecorator.demand",
    "cobald.interfaces._proxy:PoolDecorator.utilisation",
    "cobald.interfaces._proxy:PoolDecorator.allocation",
    "cobald.decorator.logger:Logger.__init__",
    "cobald.decorator.logger:Logger.demand",
    "cobald.decorator.logger:Logger.name",
    "cobald.decorator.logger:_WarnMap.__getitem__",
    "cobald.decorator.buffer:Buffer.__init__",
    "cobald.decorator.standardiser:Standardiser.demand",
]
MANIFEST = {
    "technique": "symbolic execution of decorator stacks on z3 Real proxies; SMT/identity checks decide pass-through and the content of each log record",
    "text": "Bounded symbolic model checking of stacks of PoolDecorator / Logger / Standardiser / Buffer (depth <= 2 "
            "quick, 3 thorough; every order) under sequences of <= 2 (3) operations (read all, write demand, change "
            "the pool): all numeric values are symbolic; supply/utilisation/allocation must arrive as the pool's "
            "very objects, demand is identity-transparent through plain decorators and Loggers, and each Logger "
            "must emit exactly one record per arriving write, before it is applied, on the configured logger and "
            "level with the new value and the target's state from before the write. Template validation is "
            "enumerated over a finite catalogue (not solver-decided: str % mapping is a C routine).",
    "note": "logger names and levels come from finite catalogues (logging needs genuine int levels); records are "
            "captured unformatted; Buffers are not ticked, so a Buffer holds back what is written above it",
    "design_ref": "DESIGN.md §3 C16",
}
STUBS = ["a capturing logging.Handler on the Logger's logger (stores records, never formats)"]
ASSUMPTIONS = ["the pool is well-behaved (stores demand writes)", "floats are exact reals",
               "Standardiser layers use default limits (its limits are C06's subject)"]
OUTSIDE = ["formatted log text", "Buffer flushing (C09)", "logger names/levels outside the catalogues"]

LEVELS = [5, logging.DEBUG, logging.INFO, logging.WARNING, 55]
NAMES = [None, "verif.c16.a", "verif.c16.b.c", ""]  # "" is the root logger
KINDS = ("plain", "logger", "standardiser", "buffer")
OPS = ("read", "write", "change")


def BOUNDS(tier):
    return {"depth": "0..2" if tier == "quick" else "0..3", "ops": 2 if tier == "quick" else 3,
            "levels": LEVELS, "names": NAMES}


class Plain(PoolDecorator):
    pass


class Capture(logging.Handler):
    def __init__(self, owner, pool, sink, registry):
        super().__init__(level=1)
        self.owner, self.pool, self.sink, self.registry = owner, pool, sink, registry

    def others(self):
        return [o[0] for o in self.registry if o[0] is not None and o[0] is not self.owner[0]]

    def emit(self, record):
        L = self.owner[0]
        if L is None or record.msg is not L.message:
            return
        # two Loggers may share a logging.Logger: tell their records apart by the target they carry
        if isinstance(record.args, dict) and record.args.get("target") is not L.target \
                and any(record.args.get("target") is o.target for o in self.others()):
            return
        self.sink.append({
            "record": record, "logger": L,
            "target_demand_at_emission": L.target.demand,
            "pool_writes_at_emission": len(self.pool.writes),
        })


def stack(ctx, layers, ops):
    pool = RecPool(demand=ctx.num("demand"), supply=ctx.num("supply"), utilisation=ctx.num("util"),
                   allocation=ctx.num("alloc"))
    ctx.assume(pool.supply >= 0)
    top = pool
    loggers = []  # (Logger, index, level, expected name)
    cleanup = []
    sink = []
    owners = []
    emitted = []
    try:
        for i, kind in enumerate(layers):
            below = top
            if kind == "plain":
                top = Plain(below)
            elif kind == "standardiser":
                top = Standardiser(below)
            elif kind == "buffer":
                top = Buffer(below, window=ctx.num("window%d" % i))
            else:
                level = LEVELS[ctx.choice("level%d" % i, len(LEVELS))]
                name = NAMES[ctx.choice("name%d" % i, len(NAMES))]
                owner = [None]
                top = Logger(below, name=name, level=level) if name is not None else Logger(below, level=level)
                # without a configured name the channel is whatever the Logger reports (the property does not fix a
                # default); nothing is emitted at construction, so the handler can be attached afterwards
                ctx.require(isinstance(top.name, str) and (name is None or top.name == logging.getLogger(name).name),
                            "logger name is the configured one")
                lg = logging.getLogger(top.name)
                expected = lg.name
                owners.append(owner)
                h = Capture(owner, pool, sink, owners)
                old = (lg.level, lg.propagate, lg.disabled)
                lg.addHandler(h)
                lg.setLevel(1)
                lg.propagate = False
                lg.disabled = False
                cleanup.append((lg, h, old))
                owner[0] = top
                loggers.append((top, i, level, expected))
            if top is not below:
                ctx.require(top.target is below, "a decorator acts on the very object it was constructed over")
        chain = []  # objects from top to pool
        node = top
        while node is not pool:
            chain.append(node)
            node = node.target
        transparent = all(isinstance(x, (Plain, Logger)) for x in chain)
        for k, op in enumerate(ops):
            tag = "op%d:%s: " % (k, op)
            if op == "change":
                pool._demand = ctx.num("demand_%d" % k)
                pool.supply, pool.utilisation, pool.allocation = (
                    ctx.num("supply_%d" % k), ctx.num("util_%d" % k), ctx.num("alloc_%d" % k))
                ctx.assume(pool.supply >= 0)
            elif op == "write":
                v = ctx.num("v%d" % k)
                n0 = len(pool.writes)
                pre = {id(L): (L.target.demand, L.target.supply, L.target.utilisation, L.target.allocation)
                       for L, *_ in loggers}
                sink.clear()
                top.demand = v
                for r in sink:  # remember what each record carried when it was emitted
                    emitted.append((r["record"], dict(r["record"].args) if isinstance(r["record"].args, dict) else None))
                for L, idx, level, expected in loggers:
                    above = layers[idx + 1:]
                    recs = [r for r in sink if r["logger"] is L]
                    if "buffer" in above:
                        ctx.require(not recs, tag + "a Logger below a Buffer sees nothing until the Buffer flushes")
                        continue
                    ctx.require(len(recs) == 1, tag + "exactly one record per demand write")
                    if len(recs) != 1:
                        continue
                    r = recs[0]
                    rec = r["record"]
                    ctx.require(rec.name == expected and rec.levelno == level, tag + "record on the configured logger and level")
                    args = rec.args
                    ctx.require(isinstance(args, dict), tag + "record carries the field mapping")
                    d0, s0, u0, a0 = pre[id(L)]
                    ctx.require(args["value"] == v, tag + "record carries the new value")
                    ctx.require(same(args["demand"], d0) and same(args["supply"], s0)
                                and same(args["utilisation"], u0) and same(args["allocation"], a0),
                                tag + "record carries the target's state from before the write")
                    ctx.require(args["target"] is L.target, tag + "record carries the target itself")
                    ctx.require(same(r["target_demand_at_emission"], d0) and r["pool_writes_at_emission"] == n0,
                                tag + "record emitted before the write is applied")
                if transparent:
                    ctx.require(len(pool.writes) == n0 + 1 and same(pool.writes[-1], v),
                                tag + "write passes through plain decorators and Loggers unchanged")
                elif "buffer" in layers:
                    ctx.require(len(pool.writes) == n0, tag + "a Buffer holds the write back")
                else:
                    ctx.require(len(pool.writes) == n0 + 1 and pool.writes[-1] == v,
                                tag + "default Standardiser forwards the value unchanged")
            # after every operation: pass-through of the three read-only properties
            ctx.require(same(top.supply, pool.supply) and same(top.utilisation, pool.utilisation)
                        and same(top.allocation, pool.allocation),
                        tag + "supply/utilisation/allocation are the pool's own objects")
            if transparent:
                ctx.require(same(top.demand, pool.demand), tag + "demand read passes through plain decorators and Loggers")
            ctx.observe(tag + "pool.demand", pool.demand)
        # records are kept by handlers (MemoryHandler, caplog): later writes must not change earlier records
        for rec, snap in emitted:
            ctx.require(snap is not None and isinstance(rec.args, dict) and list(rec.args) == list(snap)
                        and all(rec.args[k] is snap[k] for k in snap),
                        "a record keeps the values it was emitted with")
        ctx.reach()
    finally:
        for lg, h, old in cleanup:
            lg.removeHandler(h)
            lg.level, lg.propagate, lg.disabled = old
            lg.setLevel(old[0])


def reconfigure(ctx, nwrites):
    """the logger name, level and message are attributes: a record goes where they point WHEN THE WRITE HAPPENS"""
    pool = RecPool(demand=ctx.num("demand"), supply=ctx.num("supply"), utilisation=ctx.num("util"),
                   allocation=ctx.num("alloc"))
    ctx.assume(pool.supply >= 0)
    names = [n for n in NAMES if n != ""]
    n0 = names[ctx.choice("name0", len(names))]
    l0 = LEVELS[ctx.choice("level0", len(LEVELS))]
    L = Logger(pool, name=n0, level=l0) if n0 is not None else Logger(pool, level=l0)
    sink = []

    class H(logging.Handler):
        def emit(self, record):
            if record.msg is L.message:
                sink.append(record)

    cleanup = []
    watched = set()

    def watch(channel):
        if channel in watched:
            return
        watched.add(channel)
        lg = logging.getLogger(channel)
        h = H(level=1)
        cleanup.append((lg, h, (lg.level, lg.propagate, lg.disabled)))
        lg.addHandler(h)
        lg.setLevel(1)
        lg.propagate = False
        lg.disabled = False

    try:
        for c in names:
            if c is not None:
                watch(c)
        watch(L.name)
        name, level = n0, l0
        for k in range(nwrites):
            tag = "write%d: " % k
            what = ctx.choice("reconfigure_%d" % k, 4)  # nothing, name, level, message
            if what == 1:
                name = names[ctx.choice("name_%d" % k, len(names))]
                L.name = name
            elif what == 2:
                level = LEVELS[ctx.choice("level_%d" % k, len(LEVELS))]
                L.level = level
            elif what == 3:
                L.message = "reconfigured %(value)s / %(demand)s"
            # without a configured name the channel is whatever the Logger reports now (no default is demanded)
            expected = L.name if name is None else name
            ctx.require(L.name == expected and isinstance(expected, str), tag + "the Logger reports the configured name")
            watch(expected)
            del sink[:]
            v = ctx.num("v%d" % k)
            d0 = pool.demand
            L.demand = v
            ctx.observe(tag + "channels", [r.name for r in sink])
            ctx.require(len(sink) == 1, tag + "exactly one record per demand write")
            if len(sink) != 1:
                return
            rec = sink[0]
            ctx.require(rec.name == expected and rec.levelno == level,
                        tag + "record on the logger and level configured at the time of the write")
            ctx.require(rec.msg is L.message, tag + "record uses the configured message")
            ctx.require(isinstance(rec.args, dict) and rec.args["value"] == v and same(rec.args["demand"], d0),
                        tag + "record carries the new value and the demand from before the write")
        ctx.reach()
    finally:
        for lg, h, old in cleanup:
            lg.removeHandler(h)
            lg.level, lg.propagate, lg.disabled = old
            lg.setLevel(old[0])


def tasks(tier, seed):
    out = [Task(MOD, "reconfigure", dict(nwrites=2 if tier == "quick" else 3), model="R", weight=200, witness_every=3)]
    dmax = 2 if tier == "quick" else 3
    nops = 2 if tier == "quick" else 3
    for d in range(0, dmax + 1):
        for layers in itertools.product(KINDS, repeat=d):
            for n in range(1, nops + 1):
                for ops in itertools.product(OPS, repeat=n):
                    if "write" not in ops and n > 1:
                        continue
                    out.append(Task(MOD, "stack", dict(layers=list(layers), ops=list(ops)), model="R",
                                    weight=(25 ** layers.count("logger")) * n,
                                    witness_every=1 if layers.count("logger") < 2 else 3))
    return out


GOOD = ["%(value)s", "%(demand)s", "%(supply)s", "%(utilisation).2f", "%(allocation).2f", "%(target)s",
        "plain text", "%(value)s %(demand)s %(supply)s %(utilisation)s %(allocation)s %(target)s", "100%%"]
BAD = ["%(foo)s", "%(values)s", "%(valu)s", "%(Demand)s", "%(demand )s", "%( supply)s", "%(util)s",
       "%(allocations)s", "%(targets)s", "%(value)s %(nope)s", "%()s", "%(consumptions)s", "%(self)s"]


def extra(tier, seed):
    """template validation over a finite catalogue (enumerated, not solver-decided)"""
    errs = []

    def v(label, msg):
        return {"harness": "template", "label": label, "inputs": {"message": msg}, "params": {},
                "status": "confirmed", "property": PROPERTY, "kind": "custom", "module": MOD}

    p = RecPool()
    for m in GOOD:
        try:
            Logger(p, message=m)
        except Exception as e:
            errs.append(v("valid template rejected (%s)" % type(e).__name__, m))
    for m in BAD + BAD[:4]:  # and once more: a rejection must not be remembered as an acceptance
        try:
            Logger(p, message=m)
            errs.append(v("template with unknown field accepted", m))
        except RuntimeError:
            pass
        except Exception as e:
            errs.append(v("unknown field raised %s instead of RuntimeError" % type(e).__name__, m))
    with warnings.catch_warnings(record=True) as w:
        warnings.simplefilter("always")
        try:
            Logger(p, message="%(consumption)s")
            if not any(issubclass(x.category, FutureWarning) for x in w):
                errs.append(v("deprecated field without warning", "%(consumption)s"))
        except Exception:
            errs.append(v("deprecated field rejected", "%(consumption)s"))
    return {"violations": errs, "templates_enumerated": len(GOOD) + len(BAD) + 1,
            "template_check": "enumerated, not solver-decided"}


def replay(v):
    r = extra("quick", 0)
    hit = [x for x in r["violations"] if x["label"] == v["label"] and x["inputs"] == v["inputs"]]
    print("REPRODUCED" if hit else "not reproduced on this tree")
    return 1 if hit else 0


PREDICATES = {}
