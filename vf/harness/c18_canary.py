"""Side-effect canaries for C18: anything recorded here means a YAML document got code to run."""
from .common import RecPool

FIRED = []


def reset():
    del FIRED[:]


def fire(*args, **kwargs):
    FIRED.append(("fire", args, kwargs))
    return "fired"


class Canary:
    def __init__(self, *args, **kwargs):
        FIRED.append(("Canary", args, kwargs))

    def __setstate__(self, state):
        FIRED.append(("setstate", state))


class DummyPool(RecPool):
    def __init__(self):
        super().__init__()
