"""C05 - a YAML pipeline section builds the chain it describes (Engine S + concrete YAML layer)."""
import os
import tempfile

import cobald.daemon.core.config as config_mod
from cobald.daemon.core.config import load, load_pipeline

from ..core import Task
from ..symx import is_sym
from . import c05_plugins as P
from .common import patched, same

PROPERTY = "C05"
MOD = __name__
FUNCTIONS = [
    "cobald.daemon.core.config:load_pipeline",
    "cobald.daemon.core.config:PipelineTranslator.translate_hierarchy",
    "cobald.daemon.core.config:add_constructor_plugins",
    "cobald.daemon.core.config:load",
    "cobald.daemon.config.yaml:yaml_constructor",
    "cobald.daemon.config.yaml:load_configuration",
    "cobald.daemon.config.mapping:Translator.translate_hierarchy",
    "cobald.daemon.config.mapping:Translator.construct",
    "cobald.interfaces._partial:Partial.__rshift__",
]
MANIFEST = {
    "technique": "symbolic execution of load_pipeline/PipelineTranslator on solver-enumerated form assignments with z3-integer argument values; every path's witness is rendered to YAML text and loaded through the real load()",
    "text": "Bounded symbolic model checking of the pipeline section: n <= 3 (thorough 4) elements, per position the "
            "syntactic form (!Tag mapping / sequence / bare, legacy __type__ mapping), the argument profile (incl. "
            "nested list/mapping values), lazily or eagerly evaluated tags and the position of a failing constructor "
            "are symbolic choices; argument values are symbolic integers. Layer 1 feeds the objects PyYAML delivers "
            "for each form to the real load_pipeline; on every path the construction log must be 'each once, last to "
            "first, exact arguments, target = next element', equal to the same chain built with >>, and a failing "
            "constructor must surface without any earlier element being built. Layer 2 renders each path's witness to "
            "YAML text and loads it through the real load() / COBalDLoader / factory_constructor.",
    "note": "the node-kind -> kwargs/args/() mapping of factory_constructor is exercised concretely on every path's "
            "witness (PyYAML nodes cannot carry symbolic scalars), not symbolically; get_entrypoints is a harness stub",
    "design_ref": "DESIGN.md §3 C05",
}
STUBS = ["get_entrypoints (as seen from cobald.daemon.core.config) -> the harness's recording plugins"]
ASSUMPTIONS = ["plugins are ordinary classes with the .s template factory", "one controller at the head, decorators after it, a pool last"]
OUTSIDE = ["pipelines longer than 4", "YAML anchors/aliases and merge keys", "non-integer scalar arguments in the symbolic layer"]

FORMS = ("tag_mapping", "tag_sequence", "tag_bare", "legacy")
PROFILES = [(), ("a",), ("a", "b"), ("a", "k")]


def BOUNDS(tier):
    return {"pipeline_length": "1..3" if tier == "quick" else "1..4", "forms": FORMS,
            "argument_profiles": [list(p) for p in PROFILES], "argument_kinds_at_position_(1 if n>=3 else 0)": list(AKINDS), "eager_tag": "by choice at position 1"}


class EP:
    extras = None

    def __init__(self, name, obj):
        self.name, self._obj = name, obj

    def load(self):
        return self._obj


def _entrypoints(group):
    if group == "cobald.config.yaml_constructors":
        return [EP(name, cls) for name, cls in P.PLUGINS.items()]
    if group == "cobald.config.sections":
        return [EP("pipeline", load_pipeline)]
    return []


def _cls_for(i, n, failing, eager, empty_pool=False):
    if i == n - 1:
        return P.BoomPool if failing else (P.EmptyPool if empty_pool else P.ThePool)
    if i == 0:
        return P.BoomCtl if failing else P.Ctl
    if failing:
        return P.BoomDeco
    return P.EagerDeco if eager else P.Deco


class A:
    """one configured argument value: how it looks as python object, as YAML text, and how to recognise it"""

    def __init__(self, kind, vals):
        self.kind, self.vals = kind, vals

    def obj(self):
        x = self.vals
        if self.kind == "scalar":
            return x[0]
        if self.kind == "nested":
            return [x[0], {"y": x[1]}]
        if self.kind == "null":
            return None
        if self.kind == "intkey":
            return {1: x[0]}
        if self.kind == "typed":
            return {"__type__": "vf.harness.c05_plugins.make_arg", "v": x[0]}
        if self.kind == "eager_seq":
            return P.EagerArg([x[0], x[1]], {"y": x[2]})
        if self.kind == "eager_map":
            return P.EagerArg(p=[x[0], x[1]], q={"y": x[2]})
        if self.kind == "lazy_map":
            return P.LazyArg(p=[x[0], x[1]], q={"y": x[2]})
        raise ValueError(self.kind)

    def yaml(self):
        v = [str(int(z)) for z in self.vals]
        return {
            "scalar": lambda: v[0],
            "nested": lambda: "[%s, {y: %s}]" % (v[0], v[1]),
            "null": lambda: "~",
            "intkey": lambda: "{1: %s}" % v[0],
            "typed": lambda: "{__type__: vf.harness.c05_plugins.make_arg, v: %s}" % v[0],
            "eager_seq": lambda: "!EagerArg [[%s, %s], {y: %s}]" % (v[0], v[1], v[2]),
            "eager_map": lambda: "!EagerArg {p: [%s, %s], q: {y: %s}}" % (v[0], v[1], v[2]),
            "lazy_map": lambda: "!LazyArg {p: [%s, %s], q: {y: %s}}" % (v[0], v[1], v[2]),
        }[self.kind]()

    def matches(self, got, by_value, original=None):
        x = self.vals

        def eq(a, b):
            if by_value:
                return not is_sym(a) and a == b
            return same(a, b) or (not is_sym(a) and not is_sym(b) and a is b)

        if self.kind == "scalar":
            return eq(got, x[0])
        if self.kind == "nested":
            return (isinstance(got, list) and len(got) == 2 and eq(got[0], x[0]) and isinstance(got[1], dict)
                    and list(got[1]) == ["y"] and eq(got[1]["y"], x[1]))
        if self.kind == "null":  # an explicitly configured null is an argument like any other
            return got is None
        if self.kind == "intkey":  # plain data: keys need not be strings
            return isinstance(got, dict) and list(got) == [1] and eq(got[1], x[0])
        if self.kind == "typed":
            return (type(got) is P.Arg and got.args == () and list(got.kwargs) == ["v"] and eq(got.kwargs["v"], x[0]))
        if not by_value:
            return got is original  # the very object PyYAML delivered
        cls = P.LazyArg if self.kind == "lazy_map" else P.EagerArg
        if type(got) is not cls:
            return False
        if self.kind == "eager_seq":
            want_args, want_kwargs = ([x[0], x[1]], {"y": x[2]}), {}
        else:
            want_args, want_kwargs = (), {"p": [x[0], x[1]], "q": {"y": x[2]}}
        final_ok = list(got.args) == list(want_args) and got.kwargs == want_kwargs
        if self.kind == "lazy_map":
            return final_ok
        # eagerly evaluated tags must have seen their complete arguments when they were called
        return final_ok and got.snapshot is not None and list(got.snapshot[0]) == list(want_args) and got.snapshot[1] == want_kwargs


AKINDS = ("scalar", "nested", "null", "intkey", "typed", "eager_seq", "eager_map", "lazy_map")


def _spec(ctx, n, rich=True):
    """symbolic description of the section: per element (cls, form, kwargs in order)"""
    fail = ctx.choice("fail_pos", n + 1)  # n = nobody fails
    P.FAIL_WITH[0] = [P.Boom, TypeError, KeyError][ctx.choice("fail_exception", 3)] if fail < n else P.Boom
    spec = []
    for i in range(n):
        form = FORMS[ctx.choice("form%d" % i, len(FORMS))]
        eager = ctx.flag("eager%d" % i) if i == 1 and n > 2 else False
        cls = _cls_for(i, n, fail == i, eager, empty_pool=(i == n - 1 and fail != i and n > 1 and ctx.flag("empty_pool")))
        if form == "tag_bare":
            names = ()
        elif form == "tag_sequence":
            names = PROFILES[ctx.choice("profile%d" % i, 3)]  # (), (a), (a, b): positional
        else:
            names = PROFILES[ctx.choice("profile%d" % i, len(PROFILES))]
        kw = {}
        for name in names:
            kind = "scalar"
            if name == "a" and i == (1 if n >= 3 else 0):
                kinds = [k for k in (AKINDS if rich else AKINDS[:2]) if k != "typed" or form == "legacy"]
                kind = kinds[ctx.choice("akind%d" % i, len(kinds))]
            nvals = {"scalar": 1, "nested": 2, "typed": 1, "null": 0, "intkey": 1}.get(kind, 3)
            kw[name] = A(kind, [ctx.num("e%d_%s%d" % (i, name, j), "int") for j in range(nvals)])
        spec.append((cls, form, kw))
    return spec, fail


def _content(spec):
    """the python objects PyYAML + factory_constructor deliver for each form"""
    out = []
    for cls, form, kwa in spec:
        kw = {k: a.obj() for k, a in kwa.items()}
        for k, a in kwa.items():
            a.original = kw[k]
        if form == "tag_mapping":
            out.append(cls.s(**kw))
        elif form == "tag_sequence":
            out.append(cls.s(*kw.values()))
        elif form == "tag_bare":
            out.append(cls.s())
        else:
            out.append({"__type__": "vf.harness.c05_plugins.%s" % cls.__name__, **kw})
    return out


def _scalar(v):
    return str(int(v))


def _yaml_value(a):
    return a.yaml()


def _yaml(spec):
    lines = ["pipeline:"]
    for cls, form, kw in spec:
        if form == "tag_mapping":
            lines.append("  - !%s" % cls.__name__)
            if not kw:
                lines[-1] += " {}"
            for k, v in kw.items():
                lines.append("    %s: %s" % (k, _yaml_value(v)))
        elif form == "tag_sequence":
            lines.append("  - !%s [%s]" % (cls.__name__, ", ".join(_yaml_value(v) for v in kw.values())))
        elif form == "tag_bare":
            # a scalar node, with or without content, means "no arguments"
            lines.append("  - !%s%s" % (cls.__name__, " ~" if len(lines) % 2 else ""))
        else:
            lines.append("  - __type__: vf.harness.c05_plugins.%s" % cls.__name__)
            for k, v in kw.items():
                lines.append("    %s: %s" % (k, _yaml_value(v)))
    return "\n".join(lines) + "\n"


def _eq(got, want, by_value):
    if isinstance(want, list):
        return isinstance(got, list) and len(got) == 2 and _eq(got[0], want[0], by_value) \
            and isinstance(got[1], dict) and list(got[1]) == ["y"] and _eq(got[1]["y"], want[1]["y"], by_value)
    if by_value:
        return got == want
    return same(got, want) or (not is_sym(got) and not is_sym(want) and got is want)


def _check(ctx, tag, spec, fail, result, err, log, by_value):
    n = len(spec)
    real_ctx = ctx
    if by_value:  # the YAML layer only exists in concrete replays
        class _C:
            require = staticmethod(lambda cond, label, **kw: real_ctx.require_concrete(cond, label))
        ctx = _C
    first_built = fail if fail < n else 0
    expect = list(range(n - 1, first_built - 1, -1))  # last to first, stopping at the failing one
    ctx.require([type(o).__name__ for o, _, _ in log] == [spec[i][0].__name__ for i in expect],
                tag + "each element is constructed exactly once, last to first, nothing before a failing one")
    if len(log) != len(expect):
        return
    prev = None
    for (obj, target, seen), i in zip(log, expect):
        cls, form, kw = spec[i]
        want = {"a": 0, "b": 0, "k": None}
        want.update(kw)
        ok = True
        for k in want:
            if k in kw:
                ok = ok and kw[k].matches(seen[k], by_value, getattr(kw[k], "original", None))
            else:
                ok = ok and (seen[k] is None if want[k] is None else (not is_sym(seen[k]) and seen[k] == want[k]))
        ctx.require(ok, tag + "constructed with exactly the configured arguments")
        ctx.require(target is prev, tag + "every element's target is the very next object")
        prev = obj
    if fail < n:
        ctx.require(err is not None, tag + "a constructor error surfaces as an exception from loading")
        ctx.require(result is None, tag + "no partially linked pipeline is returned")
        return
    ctx.require(err is None, tag + "a valid pipeline loads without error")
    if err is not None:
        return
    ctx.require(isinstance(result, list) and len(result) == n, tag + "n objects in configuration order")
    built = [o for o, _, _ in reversed(log)]
    ctx.require(all(a is b for a, b in zip(result, built)), tag + "the returned list is the constructed chain in order")
    for i in range(n - 1):
        ctx.require(result[i].target is result[i + 1], tag + "every element's target is the very next object")
    ctx.require(isinstance(result[-1], P.ThePool), tag + "the last element is the pool")


def pipeline(ctx, n, rich=True):
    spec, fail = _spec(ctx, n, rich)
    # layer 1: the objects PyYAML delivers, through the real section plugin
    del P.LOG[:]
    try:
        content = _content(spec)
        result, err = load_pipeline(content), None
    except Exception as e:
        result, err = None, e
    log = list(P.LOG)
    ctx.reach()
    ctx.observe("constructed", [type(o).__name__ for o, _, _ in log])
    _check(ctx, "objects: ", spec, fail, result, err, log, by_value=False)
    # the same chain written with >>
    if fail == n and err is None and n > 1:
        del P.LOG[:]
        chain = None
        for cls, form, kwa in reversed(spec):
            kw = {k: (a.original if a.kind != "typed" else P.make_arg(v=a.vals[0])) for k, a in kwa.items()}
            if form == "tag_sequence":
                t = cls.s(*kw.values())
            else:
                t = cls.s(**kw)
            chain = (t >> chain) if chain is not None else t.__construct__()
        ref = list(P.LOG)
        ok = [type(o).__name__ for o, _, _ in ref] == [type(o).__name__ for o, _, _ in log]
        for (obj, target, seen), (cls, form, kwa) in zip(ref, reversed(spec)):
            for k, a in kwa.items():
                ok = ok and a.matches(seen[k], False, getattr(a, "original", None))
        ctx.require(ok, "the result equals the pipeline built in python with >>")
    # layer 2 (concrete replays only): the witness rendered as YAML text through the real load()
    if ctx.mode == "conc":
        text = _yaml(spec)
        fd, path = tempfile.mkstemp(suffix=".yaml", prefix="verif_c05_")
        try:
            with os.fdopen(fd, "w") as f:
                f.write(text)
            del P.LOG[:]
            with patched((config_mod, "get_entrypoints", _entrypoints)):
                try:
                    with load(path) as cfg:
                        result2 = next(v for p, v in cfg.items() if p.section == "pipeline")
                    err2 = None
                except Exception as e:
                    result2, err2 = None, e
            log2 = list(P.LOG)
        finally:
            os.unlink(path)
        ctx.observe("yaml_constructed", [type(o).__name__ for o, _, _ in log2])
        _check(ctx, "yaml: ", spec, fail, result2, err2, log2, by_value=True)
    else:
        ctx.observe("yaml_constructed", [type(o).__name__ for o, _, _ in log])


def tasks(tier, seed):
    nmax = 3 if tier == "quick" else 4
    out = []
    for n in range(1, nmax + 1):
        rich = n <= 2 or (tier == "thorough" and n == 3)  # all eight kinds of argument value
        out.append(Task(MOD, "pipeline", dict(n=n, rich=rich), model="Z", weight=20 ** n,
                        shards=1 if n < 2 else (4 if n == 2 else (16 if n == 3 else 64)),
                        witness_every=1 if n < 3 or (n == 3 and tier == "thorough") else (3 if n == 3 else 13)))
    return out


PREDICATES = {}
