"""Shared harness helpers: recording pools, sleep stub, coroutine driver."""
import logging

from cobald.interfaces import Pool

# the runtime logs failures it is given on purpose: keep them off stderr
logging.getLogger("cobald").addHandler(logging.NullHandler())

from .. import symx


class RecPool(Pool):
    """A pool of the harness: plain attributes, demand writes are logged."""

    supply = 0
    utilisation = 1.0
    allocation = 1.0

    def __init__(self, demand=0, supply=0, utilisation=1.0, allocation=1.0, name="pool"):
        self._demand = demand
        self.supply = supply
        self.utilisation = utilisation
        self.allocation = allocation
        self.writes = []
        self.name = name
        self.on_write = None

    @property
    def demand(self):
        return self._demand

    @demand.setter
    def demand(self, value):
        self.writes.append(value)
        if self.on_write is not None:
            self.on_write(self, value)
        self._demand = value

    def __repr__(self):
        return "<RecPool %s>" % self.name


class Sleep:
    """awaitable standing in for trio.sleep: yields ('sleep', d) to the driver (virtual clock)"""

    def __init__(self, d):
        self.d = d

    def __await__(self):
        yield ("sleep", self.d)


def fake_sleep(d):
    return Sleep(d)


class patched:
    """context manager: rebind module globals for the duration of a harness run"""

    def __init__(self, *triples):
        self.triples = triples
        self.saved = []

    def __enter__(self):
        for mod, name, val in self.triples:
            self.saved.append((mod, name, getattr(mod, name, _MISSING)))
            setattr(mod, name, val)
        return self

    def __exit__(self, *exc):
        for mod, name, old in reversed(self.saved):
            if old is _MISSING:
                delattr(mod, name)
            else:
                setattr(mod, name, old)
        return False


_MISSING = object()


class FakeTrio:
    """what a cobald module sees as `trio` while a run() coroutine is driven by the harness"""

    def __init__(self, real):
        self._real = real
        self.sleep = fake_sleep

    def __getattr__(self, name):
        return getattr(self._real, name)


def drive(coro, steps):
    """advance a coroutine `steps` times; -> list of yielded values, or raises what run() raised"""
    out = []
    for _ in range(steps):
        out.append(coro.send(None))
    return out


def same(a, b):
    """identity or (for proxies) term identity"""
    if a is b:
        return True
    if symx.is_sym(a) and symx.is_sym(b):
        return a.t.eq(b.t)
    return False


# -- numeric builtins as seen from a module under test -------------------------------------------------------
import builtins as _builtins
import math as _math


def _sym_int(x=0, *a):
    if symx.is_sym(x) or isinstance(x, symx.XF):
        return symx.SInt(x) if symx.is_sym(x) else _builtins.int(x)
    return _builtins.int(x, *a)


def _sym_float(x=0.0):
    if symx.is_sym(x):
        return symx.SFloat(x)
    if isinstance(x, symx.XF):
        return x
    return _builtins.float(x)


class SymMath:
    """`math` as seen from a module under test: floor/ceil/trunc on proxies stay symbolic, the rest is the
    real module (and refuses proxies, as before)"""

    def __getattr__(self, name):
        return getattr(_math, name)

    @staticmethod
    def floor(x):
        if symx.is_sym(x):
            return symx.SInt(x // 1) if not isinstance(x, symx.SInt) else x
        return _math.floor(x)

    @staticmethod
    def ceil(x):
        if symx.is_sym(x):
            return -SymMath.floor(-x)
        return _math.ceil(x)

    @staticmethod
    def trunc(x):
        if symx.is_sym(x):
            return symx.SInt(x)
        return _math.trunc(x)


class _IntMeta(type):
    def __instancecheck__(cls, obj):
        return _builtins.isinstance(obj, (_builtins.int, symx.SInt))

    def __call__(cls, x=0, *a):
        return _sym_int(x, *a)


class IntStub(metaclass=_IntMeta):
    """`int` as seen from a module under test: converts proxies symbolically, isinstance() accepts them"""


class _FloatMeta(type):
    def __instancecheck__(cls, obj):
        return _builtins.isinstance(obj, (_builtins.float, symx.SFloat, symx.XF))

    def __call__(cls, x=0.0):
        return _sym_float(x)


class FloatStub(metaclass=_FloatMeta):
    """`float` as seen from a module under test"""


def numeric_stubs(module):
    """patch triples that let int() / float() / math.floor / math.ceil act on proxies inside `module`"""
    out = [(module, "int", IntStub), (module, "float", FloatStub)]
    if hasattr(module, "math"):
        out.append((module, "math", SymMath()))
    return out
