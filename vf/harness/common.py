"""Shared harness helpers: recording pools, sleep stub, coroutine driver."""
import logging

from cobald.interfaces import Pool

# the runtime logs failures it is given on purpose: keep them off stderr
logging.getLogger("cobald").addHandler(logging.NullHandler())

from .. import symx


class RecPool(Pool):
    """A pool of the harness: plain attributes, demand writes are logged."""

    supply = 0
    utilisation = 1.0
    allocation = 1.0

    def __init__(self, demand=0, supply=0, utilisation=1.0, allocation=1.0, name="pool"):
        self._demand = demand
        self.supply = supply
        self.utilisation = utilisation
        self.allocation = allocation
        self.writes = []
        self.name = name
        self.on_write = None

    @property
    def demand(self):
        return self._demand

    @demand.setter
    def demand(self, value):
        self.writes.append(value)
        if self.on_write is not None:
            self.on_write(self, value)
        self._demand = value

    def __repr__(self):
        return "<RecPool %s>" % self.name


class Sleep:
    """awaitable standing in for trio.sleep: yields ('sleep', d) to the driver (virtual clock)"""

    def __init__(self, d):
        self.d = d

    def __await__(self):
        yield ("sleep", self.d)


def fake_sleep(d):
    return Sleep(d)


class patched:
    """context manager: rebind module globals for the duration of a harness run"""

    def __init__(self, *triples):
        self.triples = triples
        self.saved = []

    def __enter__(self):
        for mod, name, val in self.triples:
            self.saved.append((mod, name, getattr(mod, name, _MISSING)))
            setattr(mod, name, val)
        return self

    def __exit__(self, *exc):
        for mod, name, old in reversed(self.saved):
            if old is _MISSING:
                delattr(mod, name)
            else:
                setattr(mod, name, old)
        return False


_MISSING = object()


class FakeTrio:
    """what a cobald module sees as `trio` while a run() coroutine is driven by the harness"""

    def __init__(self, real):
        self._real = real
        self.sleep = fake_sleep

    def __getattr__(self, name):
        return getattr(self._real, name)


def drive(coro, steps):
    """advance a coroutine `steps` times; -> list of yielded values, or raises what run() raised"""
    out = []
    for _ in range(steps):
        out.append(coro.send(None))
    return out


def same(a, b):
    """identity or (for proxies) term identity"""
    if a is b:
        return True
    if symx.is_sym(a) and symx.is_sym(b):
        return a.t.eq(b.t)
    return False
