"""./verif check <ID> quick|thorough ; ./verif replay <file> ; ./verif selftest"""
import importlib
import json
import os
import sys

from . import core

CHECKS = {
    # property id -> harness module
}
for _n in range(1, 20):
    _id = "C%02d" % _n
    if os.path.exists(os.path.join(os.path.dirname(__file__), "harness", _id.lower() + ".py")):
        CHECKS[_id] = "vf.harness." + _id.lower()


def _watchdog(prop, seconds):
    """a check never hangs: code under test that blocks forever where no time-out guards it ends the check
    with an engine error (exit 2), never silently"""
    import threading

    def fire():
        print("ENGINE-ERROR property=%s the check did not finish within %.0f s (a call into the code under test "
              "blocked forever?)" % (prop, seconds), file=sys.stderr)
        sys.stdout.flush()
        sys.stderr.flush()
        os._exit(core.EXIT_ENGINE)

    t = threading.Timer(seconds, fire)
    t.daemon = True
    t.start()


def main(argv):
    if len(argv) < 1:
        print(__doc__)
        return 2
    cmd = argv[0]
    seed = int(os.environ.get("VERIF_SEED", "0") or 0)
    if cmd == "check":
        prop = argv[1]
        tier = argv[2] if len(argv) > 2 else os.environ.get("VERIF_TIER", "quick")
        if tier not in ("quick", "thorough"):
            tier = "quick"
        if prop not in CHECKS:
            print("no check for %s" % prop, file=sys.stderr)
            return 2
        os.environ["VERIF_TIER_RUNNING"] = tier
        _watchdog(prop, float(os.environ.get("VERIF_CHECK_TIMEOUT", "2400" if tier == "quick" else "14400")))
        mod = importlib.import_module(CHECKS[prop])
        if hasattr(mod, "run"):
            return mod.run(tier, seed)
        return core.run_symx_check(mod, tier, seed)
    if cmd == "replay":
        from . import replay
        return replay.main(argv[1])
    if cmd == "manifest":
        from . import manifest
        return manifest.main()
    if cmd == "selftest":
        from . import selftest
        return selftest.main(argv[1:])
    print(__doc__)
    return 2


if __name__ == "__main__":
    rc = main(sys.argv[1:])
    sys.stdout.flush()
    sys.stderr.flush()
    os._exit(rc if isinstance(rc, int) else 0)  # a runtime left hanging by a violation must not keep the check alive
