"""Common plumbing: task sharding, evidence, known findings, replay files, exit codes."""
from __future__ import annotations

import concurrent.futures as cf
import fnmatch
import hashlib
import importlib
import inspect
import json
import multiprocessing as mp
import os
import sys
import time
import traceback

ROOT = os.path.dirname(os.path.dirname(os.path.abspath(__file__)))
EVIDENCE_DIR = os.path.join(ROOT, "evidence")
REPLAY_DIR = os.path.join(ROOT, "replays")
FINDINGS_FILE = os.path.join(ROOT, "known_findings.json")
NPROC = int(os.environ.get("VERIF_NPROC", "16"))

EXIT_OK, EXIT_VIOLATION, EXIT_ENGINE = 0, 1, 2


class Task:
    """one shard: explore harness `fn` of module `mod` with `params` in number model `model`"""

    def __init__(self, mod, fn, params=None, model="R", witness_every=1, twin=False,
                 max_paths=None, name=None, weight=1, shards=1):
        self.mod, self.fn, self.params, self.model = mod, fn, params or {}, model
        self.witness_every, self.twin, self.max_paths = witness_every, twin, max_paths
        self.name = name or fn
        self.weight = weight
        self.shards = shards

    def key(self):
        return "%s:%s" % (self.name, json.dumps(self.params, sort_keys=True, default=str))


def _work(args):
    mod, fn, params, model, witness_every, twin, max_paths, seed, name, shard = args
    from . import symx
    t0 = time.time()
    try:
        m = importlib.import_module(mod)
        h = getattr(m, fn)
        res = symx.explore(h, params, model=model, seed=seed, witness_every=witness_every,
                           twin=twin, max_paths=max_paths, name=name, shard=shard)
        return {
            "name": name, "fn": fn, "params": params, "model": model, "twin": twin,
            "stats": res.stats.as_dict(), "violations": res.violations,
            "inconclusive": res.inconclusive, "engine_errors": res.engine_errors[:20],
            "n_engine_errors": len(res.engine_errors),
            "samples": res.samples, "twin_reached": res.twin_reached, "cuts": res.cuts,
            "wall": time.time() - t0,
        }
    except BaseException as e:  # noqa: B036 - a crash of a shard is an engine error, never a pass
        return {
            "name": name, "fn": fn, "params": params, "model": model, "twin": twin,
            "stats": symx.Stats().as_dict(), "violations": [], "inconclusive": [],
            "engine_errors": ["shard crashed: %s: %s\n%s" % (type(e).__name__, e,
                                                             traceback.format_exc()[-1500:])],
            "n_engine_errors": 1, "samples": [], "twin_reached": 0, "cuts": {},
            "wall": time.time() - t0,
        }


def run_tasks(tasks, seed=0, nproc=None):
    nproc = nproc or NPROC
    tasks = sorted(tasks, key=lambda t: -t.weight)  # heavy shards first
    args = []
    for t in tasks:
        if t.shards > 1:
            depth = max(3, (t.shards - 1).bit_length() + 6)
            for i in range(t.shards):
                args.append((t.mod, t.fn, t.params, t.model, t.witness_every, t.twin, t.max_paths,
                             seed, t.name, (i, t.shards, depth)))
        else:
            args.append((t.mod, t.fn, t.params, t.model, t.witness_every, t.twin, t.max_paths, seed,
                         t.name, None))
    if nproc <= 1 or len(args) <= 1:
        return [_work(a) for a in args]
    ctx = mp.get_context("spawn")
    out = []
    import tempfile
    stopfile = os.path.join(tempfile.gettempdir(), "verif_stop_%d_%d" % (os.getpid(), int(time.time() * 1000) % 10 ** 9))
    os.environ["VERIF_STOPFILE"] = stopfile
    ex = cf.ProcessPoolExecutor(max_workers=min(nproc, len(args)), mp_context=ctx)
    try:
        for r in ex.map(_work, args, chunksize=1):
            out.append(r)
    finally:
        # a worker that ran a real runtime which could not be stopped (a hang IS a finding) still owns
        # non-daemon threads and would never exit on its own: do not wait for it
        procs = list(getattr(ex, "_processes", {}).values())
        ex.shutdown(wait=False, cancel_futures=True)
        for p in procs:
            p.join(timeout=3)
            if p.is_alive():
                p.kill()
        for f in (stopfile, stopfile + ".violation"):
            try:
                os.unlink(f)
            except OSError:
                pass
    return out


# ---------------------------------------------------------------------------------------------
def function_hashes(specs):
    """specs: list of 'module:Qual.name' -> [{name, file, line, sha1}] from the live source"""
    out = []
    for spec in specs:
        modname, _, qual = spec.partition(":")
        try:
            obj = importlib.import_module(modname)
            for part in qual.split(".") if qual else []:
                obj = inspect.getattr_static(obj, part) if not inspect.ismodule(obj) else getattr(obj, part)
            target = obj
            if isinstance(target, property):
                src = "".join(inspect.getsource(f) for f in (target.fget, target.fset) if f)
                f0 = target.fget
            else:
                if isinstance(target, (staticmethod, classmethod)):
                    target = target.__func__
                target = inspect.unwrap(target) if callable(target) else target
                src = inspect.getsource(target)
                f0 = target
            try:
                file = inspect.getsourcefile(f0)
                line = inspect.getsourcelines(f0)[1]
            except Exception:
                file, line = getattr(obj, "__file__", "?"), 0
            out.append({"name": spec, "file": file, "line": line,
                        "sha1": hashlib.sha1(src.encode()).hexdigest()[:12]})
        except Exception as e:
            out.append({"name": spec, "error": "%s: %s" % (type(e).__name__, e)})
    return out


# ---------------------------------------------------------------------------------------------
def load_findings():
    try:
        with open(FINDINGS_FILE) as f:
            return json.load(f)
    except FileNotFoundError:
        return {"findings": [], "fixed": []}


def match_finding(prop, violation, predicates, findings):
    """-> the known finding this violation belongs to, or None"""
    for f in findings.get("findings", []):
        if f.get("property") != prop:
            continue
        if not fnmatch.fnmatch(violation.get("harness", ""), f.get("harness", "*")):
            continue
        if not fnmatch.fnmatch(violation.get("label", ""), f.get("obligation", "*")):
            continue
        pred = f.get("input_class")
        if pred:
            p = predicates.get(pred)
            if p is None:
                continue
            try:
                if not p(violation.get("inputs", {}), violation.get("params", {})):
                    continue
            except Exception:
                continue
        return f
    return None


def write_replay(prop, v):
    os.makedirs(os.path.join(REPLAY_DIR, prop), exist_ok=True)
    blob = json.dumps(v, sort_keys=True, default=str)
    h = hashlib.sha1(blob.encode()).hexdigest()[:12]
    path = os.path.join(REPLAY_DIR, prop, h + ".json")
    with open(path, "w") as f:
        json.dump(v, f, indent=1, sort_keys=True, default=str)
    return path


def write_evidence(prop, tier, seed, level, coverage, assumptions, wall, violations):
    if os.environ.get("VERIF_NO_EVIDENCE"):
        return None  # developer runs on mutated trees must not overwrite committed evidence
    os.makedirs(EVIDENCE_DIR, exist_ok=True)
    ev = {
        "property_id": prop, "tier": tier, "seed": seed, "level": level,
        "coverage": coverage, "assumptions": assumptions, "wall_s": round(wall, 2),
        "violations": violations,
    }
    path = os.path.join(EVIDENCE_DIR, prop + ".json")
    tmp = path + ".tmp"
    with open(tmp, "w") as f:
        json.dump(ev, f, indent=1, default=str)
    os.replace(tmp, path)
    return path


# ---------------------------------------------------------------------------------------------
def run_symx_check(module, tier, seed):
    """generic driver for a harness module built on Engine S.

    The module provides: PROPERTY, FUNCTIONS, tasks(tier, seed), ASSUMPTIONS, STUBS, BOUNDS(tier),
    OUTSIDE, PREDICATES (name -> predicate(inputs, params)), optional extra(tier, seed) -> dict.
    """
    t0 = time.time()
    prop = module.PROPERTY
    tasks = module.tasks(tier, seed)
    # reachability twins: every distinct harness function once with twin=True
    results = run_tasks(tasks, seed=seed)
    from .symx import Stats
    total = Stats()
    violations, inconclusive, engine_errors, samples = [], [], [], []
    per_harness = {}
    cuts = {}
    models = {}
    twin_ok = {}
    reached = {}
    for r in results:
        s = Stats()
        for k, v in r["stats"].items():
            setattr(s, k, v)
        total.add(s)
        ph = per_harness.setdefault(r["name"], {"tasks": 0, "paths": 0, "queries": 0,
                                                "obligations": 0, "wall": 0.0})
        ph["tasks"] += 1
        ph["paths"] += s.paths
        ph["queries"] += s.queries
        ph["obligations"] += s.obligations
        ph["wall"] = round(ph["wall"] + r["wall"], 2)
        models[r["model"]] = models.get(r["model"], 0) + s.queries
        twin_ok[r["name"]] = twin_ok.get(r["name"], 0) + s.paths
        reached[r["name"]] = reached.get(r["name"], 0) + r.get("twin_reached", 0)
        for v in r["violations"]:
            v = dict(v)
            v["harness"] = r["name"]
            v["fn"] = r["fn"]
            v["module"] = module.__name__
            v["property"] = prop
            violations.append(v)
        inconclusive.extend(r["inconclusive"])
        for e in r["engine_errors"]:
            engine_errors.append("%s %s: %s" % (r["name"], json.dumps(r["params"], default=str), e))
        for smp in r["samples"]:
            if len(samples) < 6:
                smp = dict(smp)
                smp["harness"] = r["name"]
                samples.append(smp)
        for k, n in r["cuts"].items():
            cuts[k] = cuts.get(k, 0) + n
    # vacuity: every harness must have completed at least one path
    for name, n in twin_ok.items():
        if n == 0:
            engine_errors.append("harness %s completed no path (vacuous)" % name)
        elif reached.get(name, 0) == 0:
            engine_errors.append("harness %s never reached its obligations on any completed path (vacuous)" % name)
    # concrete probes: the same harnesses, run natively on hand-picked inputs the solver's models would not pick
    # (IEEE magnitudes, structures the engine cannot carry symbolically); failures are concrete counterexamples
    probes = getattr(module, "PROBES", None)
    n_probes = 0
    if probes:
        from . import symx as _symx
        plist = probes(tier) if callable(probes) else probes
        for fn, params, inputs, model in plist:
            n_probes += 1
            h = getattr(module, fn)
            failed = None
            for exact in (False, True):
                try:
                    cc = _symx.run_concrete(h, params, inputs, model, exact=exact)
                except Exception as e:  # noqa: B902
                    engine_errors.append("probe %s %r crashed: %s: %s" % (fn, inputs, type(e).__name__, e))
                    failed = None
                    break
                bad = cc.failed_conc + cc.failed_conc_only
                if not bad:
                    failed = None
                    break
                failed = bad  # must fail with python floats AND in exact arithmetic to count
            if failed:
                lab, occ, det = failed[0]
                violations.append({"harness": "probe:" + fn, "fn": fn, "module": module.__name__, "property": prop,
                                   "label": lab, "occurrence": occ, "inputs": _symx.jsonable(inputs),
                                   "params": _symx.jsonable(params), "model": model, "status": "confirmed",
                                   "detail": _symx.jsonable(det), "replayed_with": ["float", "fraction"]})
    extra = {}
    if hasattr(module, "extra"):
        extra = module.extra(tier, seed) or {}
        violations.extend(extra.pop("violations", []))
        engine_errors.extend(extra.pop("engine_errors", []))
    coverage = {
        "states": total.paths,
        "transitions": total.decisions,
        "traces_validated_against_impl": total.witness_ok,
        "samples": samples or [{"note": "no completed path"}],
        "obligations": total.obligations,
        "discharged": total.discharged,
        "distinct_nontrivial": total.nontrivial,
        "evaluations": total.paths,
        "rule": "one evaluation = one feasible symbolic path of the real code, closed by solver "
                "queries for all values on it; non-trivial = obligations whose antecedent is "
                "satisfiable on their path",
        "queries": total.queries,
        "inconclusive": total.inconclusive,
        "unknown_decisions": total.unknown_decisions,
        "aborted_paths": total.aborted,
        "cut_paths": total.cut,
        "cuts": cuts,
        "witness_rounding_divergent": total.witness_rounding,
        "solver_s": round(total.solver_s, 2),
        "number_models": models,
        "per_harness": per_harness,
        "paths_reaching_obligations": reached,
        "functions_encoded": function_hashes(module.FUNCTIONS),
        "bounds": module.BOUNDS(tier) if callable(module.BOUNDS) else module.BOUNDS,
        "stubs": module.STUBS,
        "outside_claim": module.OUTSIDE,
        "exhaustive": False,
        "tasks": len(tasks),
    }
    coverage.update(extra)
    if probes:
        coverage["concrete_probes"] = n_probes
    return finish(prop, tier, seed, "model_checking", coverage, module.ASSUMPTIONS, t0,
                  violations, engine_errors, inconclusive, getattr(module, "PREDICATES", {}))


def finish(prop, tier, seed, level, coverage, assumptions, t0, violations, engine_errors,
           inconclusive, predicates):
    findings = load_findings()
    new, known, unconfirmed = [], {}, []
    for v in violations:
        st = v.get("status", "")
        if not st.startswith("confirmed"):
            unconfirmed.append(v)
            continue
        f = match_finding(prop, v, predicates, findings)
        if f is not None:
            known.setdefault(f["id"], [f, 0])[1] += 1
        else:
            new.append(v)
    coverage["known_finding_hits"] = {k: n for k, (f, n) in known.items()}
    coverage["violations_new"] = len(new)
    coverage["violations_unconfirmed"] = len(unconfirmed)
    coverage["engine_errors"] = engine_errors[:10]
    coverage["inconclusive_list"] = inconclusive[:10]
    wall = time.time() - t0
    write_evidence(prop, tier, seed, level, coverage, assumptions, wall, len(new))
    for fid, (f, n) in sorted(known.items()):
        print("KNOWN-FINDING: property=%s %s [%s, %d counterexamples this run]"
              % (prop, f["what"], fid, n))
    for i in inconclusive[:5]:
        print("INCONCLUSIVE property=%s %s" % (prop, json.dumps(i, default=str)))
    seen = set()
    for v in new:
        key = (v.get("harness"), v.get("label"))
        if key in seen:
            continue
        seen.add(key)
        path = write_replay(prop, v)
        print("VIOLATION property=%s replay=%s" % (prop, path))
        print("  harness=%s obligation=%r inputs=%s params=%s" % (
            v.get("harness"), v.get("label"), json.dumps(v.get("inputs"), default=str),
            json.dumps(v.get("params"), default=str)))
    cov = coverage
    print("%s %s: paths=%s queries=%s obligations=%s discharged=%s inconclusive=%s "
          "witness_replays=%s new_violations=%d known=%d wall=%.1fs" % (
              prop, tier, cov.get("states"), cov.get("queries"), cov.get("obligations"),
              cov.get("discharged"), cov.get("inconclusive"),
              cov.get("traces_validated_against_impl"), len(new),
              sum(n for _, n in known.values()), wall))
    if new:
        return EXIT_VIOLATION
    if engine_errors or unconfirmed:
        for e in engine_errors[:8]:
            print("ENGINE-ERROR property=%s %s" % (prop, e), file=sys.stderr)
        for v in unconfirmed[:8]:
            print("ENGINE-ERROR property=%s counterexample did not reproduce: %s" % (
                prop, json.dumps(v, default=str)[:600]), file=sys.stderr)
        return EXIT_ENGINE
    return EXIT_OK
