"""Regenerate MANIFEST.json from the harness modules' metadata: ./verif manifest"""
import importlib
import json
import os

from .core import ROOT

NOT_APPLICABLE = {
    "C02": "every quantified dimension (trigger time, which coroutine is mid-step, cleanup length, "
           "thread interleaving) is a schedule of real asyncio/trio/OS threads; no input is left for "
           "a solver to range over and the loops (C tasks, epoll, nursery unwinding) cannot be encoded",
    "C11": "a statement about thread/loop identity and absence of overlap at run time; there is no "
           "symbolic input and no decision in cobald's code to explore, only the schedulers' behaviour",
    "C13": "observable only at process level (exit status, SIGINT, log output, GC liveness of a daemon "
           "process); a child process cannot be executed symbolically",
}

PENDING = "check not built yet (solver-based harness planned in DESIGN.md)"

TITLES = {}


def build():
    checks = []
    claimed = set()
    hdir = os.path.join(ROOT, "vf", "harness")
    for n in range(1, 20):
        pid = "C%02d" % n
        if not os.path.exists(os.path.join(hdir, pid.lower() + ".py")):
            continue
        mod = importlib.import_module("vf.harness." + pid.lower())
        meta = getattr(mod, "MANIFEST", None)
        if meta is None:
            continue
        claimed.add(pid)
        checks.append({
            "property_id": pid,
            "quick_cmd": "./verif check %s quick" % pid,
            "thorough_cmd": "./verif check %s thorough" % pid,
            "evidence_file": "evidence/%s.json" % pid,
            "replay_cmd_template": "./verif replay {path}",
            "engine": meta.get("engine", "symx"),
            "level_claimed": {
                "category": meta.get("category", "model_checking"),
                "text": meta["text"],
                "design_ref": meta.get("design_ref", "DESIGN.md §3"),
            },
            "level_note": meta["note"],
            "technique": meta["technique"],
        })
    na = []
    for n in range(1, 20):
        pid = "C%02d" % n
        if pid in claimed:
            continue
        na.append({"property_id": pid, "reason": NOT_APPLICABLE.get(pid, PENDING)})
    man = {
        "version": 1,
        "setup_cmd": "./setup.sh",
        "hooks": {
            "guard": "COBALD_VERIF",
            "enable": "no source hooks: every stub is a harness-side rebinding of a module global "
                      "(trio.sleep, get_entrypoints, ...) done around the call and listed in evidence",
            "baseline_off_cmd": "cd /repo && /venv/bin/python -m pytest -ra -q -p no:cacheprovider "
                                "--timeout=900 --continue-on-collection-errors",
            "source_commits": [],
            "add_only": True,
        },
        "engines": [
            {"name": "symx", "path": "vf/symx.py",
             "serves_properties": sorted(p for p in claimed if p not in ("C17", "C18")),
             "kind_free_text": "native symbolic execution of cobald's own functions on z3-backed "
                               "number proxies (DFS with decision-prefix replay), z3 decides every "
                               "branch feasibility and every obligation; counterexamples replayed "
                               "on plain python numbers"},
            {"name": "crosshair", "path": "vf/xh.py", "serves_properties": ["C17"],
             "kind_free_text": "CrossHair 0.0.110 symbolic execution over z3 sequences for strings"},
            {"name": "z3str", "path": "vf/harness/c18.py", "serves_properties": ["C18"],
             "kind_free_text": "direct z3 string-theory query over the live PyYAML constructor tables"},
        ],
        "checks": checks,
        "not_applicable": na,
        "notes": "Exit codes: 0 held (KNOWN-FINDING lines allowed), 1 new replay-confirmed violation, "
                 "2 engine/harness error (never a pass). See DESIGN.md.",
    }
    return man


def main():
    man = build()
    with open(os.path.join(ROOT, "MANIFEST.json"), "w") as f:
        json.dump(man, f, indent=1)
    print("MANIFEST.json: %d checks, %d not_applicable" % (len(man["checks"]), len(man["not_applicable"])))
    return 0
