"""C12 - runtime lifecycle: exclusive accept, shutdown completes, restart possible (partial; Engine S).

Decided symbolically: (a) the exclusive-accept guard over call histories with a symbolic overlap structure and
symbolic body outcomes, through the real ServiceRunner.accept wrapper; (b) the accept loop _accept_services
driven through a sleep stub with symbolic accept_delay and a symbolic stop event/step.
Outside the claim: real-time bounds of shutdown()/accept() with real threads and loops.
"""
import threading

import trio

import cobald.daemon.runners.service as service_mod
from cobald.daemon.runners.service import ServiceRunner

from ..core import Task
from ..symx import And, Implies, Not, Or
from .common import FakeTrio, patched, same

PROPERTY = "C12"
MOD = __name__
FUNCTIONS = [
    "cobald.daemon.runners.guard:exclusive",
    "cobald.daemon.runners.service:ServiceRunner.__init__",
    "cobald.daemon.runners.service:ServiceRunner.accept",
    "cobald.daemon.runners.service:ServiceRunner.shutdown",
    "cobald.daemon.runners.service:ServiceRunner._accept_services",
    "cobald.daemon.runners.service:ServiceRunner._adopt_services",
]
MANIFEST = {
    "technique": "symbolic execution of the exclusive-accept guard over solver-enumerated call histories and of the accept loop under a sleep stub with symbolic delay and stop step",
    "text": "PARTIAL claim. Solver-decided: (a) the real ServiceRunner.accept wrapper (guard.exclusive) with the runtime "
            "body stubbed: histories of <= 3 accept calls over <= 3 runner instances, overlap structure (nested call from "
            "inside a running accept, on the same or another instance) and body outcome (return value, Exception, "
            "BaseException) are symbolic; overlapping calls must raise RuntimeError and leave the outer call's own "
            "outcome intact, and after an accept ended in ANY way the next one enters. Since the only shared state is a "
            "non-blocking lock, every interleaving of two callers is equivalent to 'second acquire between / not between "
            "acquire and release'. (b) _accept_services through a sleep stub: symbolic accept_delay > 0, stop event "
            "(shutdown flag, trio.Cancelled, foreign exception) at a symbolic step <= 6: flags set/cleared on every exit, "
            "loop ends at the first check after the flag, delays min(i*accept_delay/10, accept_delay), a service sweep "
            "before every sleep; shutdown()'s flag/wait/stop order on a stub runtime. Next to the solver-decided claim, eleven ENUMERATED real-runtime lifecycle scenarios (shutdown returns, accept ends, restart possible, for several payload populations) are run concretely and reported as such.",
    "note": "NOT claimed: that shutdown() returns and accept() ends within bounded REAL time for every payload population "
            "(blocked threads, coroutines adopted during close), KeyboardInterrupt delivery - these need real threads and time",
    "design_ref": "DESIGN.md §4 C12",
}
STUBS = ["ServiceRunner._meta_runner -> stub runtime whose run() has a symbolic outcome and may issue nested accept calls",
         "trio (as seen from cobald.daemon.runners.service) -> sleep yields to the driver; trio.Cancelled is the real class"]
ASSUMPTIONS = ["two concurrent callers of a non-blocking lock are equivalent to a nested call between acquire and release"]
OUTSIDE = ["real-time bounds with real threads/loops", "KeyboardInterrupt/SIGINT delivery", "payload populations at shutdown"]


def BOUNDS(tier):
    return {"calls": 2 if tier == "quick" else 3, "instances": 3, "loop_steps": 6}


class Fail(Exception):
    pass


class Hard(BaseException):
    pass


class StubRuntime:
    """what accept() drives: register_payload + run(); run() is scripted by the harness"""

    def __init__(self):
        self.script = None
        self.registered = []
        self.stopped = 0
        self.running = threading.Event()

    def register_payload(self, *payloads, flavour):
        self.registered.append((payloads, flavour))

    def run(self):
        return self.script()

    def stop(self):
        self.stopped += 1


def _runner(accept_delay=1):
    r = ServiceRunner(accept_delay=accept_delay)
    r._meta_runner = StubRuntime()
    return r


def guard_history(ctx, ncalls):
    runners = [_runner() for _ in range(3)]
    entered = []
    for i in range(ncalls):
        tag = "call%d: " % i
        r = runners[ctx.choice("instance_%d" % i, 3)]
        outcome = ctx.choice("outcome_%d" % i, 3)  # return, Exception, BaseException
        nested = ctx.flag("nested_%d" % i)
        nested_on = runners[ctx.choice("nested_instance_%d" % i, 3)] if nested else None
        value = ctx.num("value_%d" % i, "int")
        inner = {}

        def body(_i=i, _outcome=outcome, _nested_on=nested_on, _inner=inner):
            entered.append(_i)
            if _nested_on is not None:
                before = len(entered)
                try:
                    _nested_on.accept()
                    _inner["result"] = "entered"
                except RuntimeError:
                    _inner["result"] = "RuntimeError"
                except BaseException as e:  # noqa: B036
                    _inner["result"] = type(e).__name__
                _inner["body_ran"] = len(entered) != before
            if _outcome == 1:
                raise Fail(_i)
            if _outcome == 2:
                raise Hard(_i)
            return None

        for x in runners:
            x._meta_runner.script = body
        n0 = len(entered)
        r._must_shutdown = True
        try:
            ret = r.accept()
            got = "return"
        except Fail:
            got = "Fail"
        except Hard:
            got = "Hard"
        except RuntimeError:
            got = "RuntimeError"
        ctx.observe(tag + "outcome", got)
        ctx.require(len(entered) == n0 + 1 and entered[-1] == i,
                    tag + "after the previous accept ended in any way, a new accept enters")
        ctx.require(got == ["return", "Fail", "Hard"][outcome], tag + "the active accept delivers its own outcome")
        if nested:
            ctx.require(inner.get("result") == "RuntimeError" and inner.get("body_ran") is False,
                        tag + "a concurrent accept raises RuntimeError and does not enter")
        ctx.require(r._must_shutdown is False, tag + "accept resets the shutdown request")
        ctx.require(len(r._meta_runner.registered) >= 1 and r._meta_runner.registered[-1][1] is trio,
                    tag + "accept adopts its service loop as a trio payload")
    ctx.reach()


def accept_loop(ctx, event, step):
    """event in none/flag/cancel/error at loop step `step` (0-based)"""
    delay = ctx.num("accept_delay")
    ctx.assume(delay >= 0)  # the constructor accepts 0: the loop then polls without pausing
    r = _runner(accept_delay=delay)
    sweeps = []
    r._adopt_services = lambda: sweeps.append(len(sweeps))
    ctx.require(r._is_shutdown.is_set() and not r.running.is_set(), "a fresh runner reports shut down and not running")
    with patched((service_mod, "trio", FakeTrio(trio))):
        coro = r._accept_services()
        ended, raised = False, None
        sleeps = []
        try:
            for k in range(8):
                if event == "flag" and k == step:
                    r._must_shutdown = True
                try:
                    if event == "cancel" and k == step and k > 0:
                        y = coro.throw(trio.Cancelled._create())
                    elif event == "error" and k == step and k > 0:
                        y = coro.throw(Fail("boom"))
                    else:
                        y = coro.send(None)
                except StopIteration:
                    ended = True
                    break
                except Fail as e:
                    ended, raised = True, e
                    break
                tag = "iteration%d: " % k
                if k == 0:
                    ctx.require(r.running.is_set() and not r._is_shutdown.is_set(),
                                tag + "running is set and shut-down is cleared once the loop has started")
                ctx.require(y[0] == "sleep", tag + "suspends only in sleep")
                sleeps.append(y[1])
                ctx.require(len(sweeps) == len(sleeps), tag + "a service sweep precedes every sleep")
                ctx.require(And(y[1] <= delay, y[1] >= 0), tag + "never sleeps longer than accept_delay")
                i = len(sleeps) - 1
                expected = delay * i / 10
                ctx.require(y[1] == (expected if i < 10 else delay), tag + "delay grows by accept_delay/10 per poll up to accept_delay")
        finally:
            coro.close()
    ctx.reach()
    ctx.observe("sleeps", len(sleeps))
    ctx.observe("ended", ended)
    if event == "none":
        ctx.require(not ended and len(sleeps) == 8, "the loop keeps polling while nothing asks it to stop")
    else:
        ctx.require(ended, "the loop ends at the first check after the stop event")
        if event == "flag":
            ctx.require(len(sleeps) == step, "no further sweep or sleep once the shutdown flag is seen")
        ctx.require((raised is not None) == (event == "error" and step > 0) or (event != "error"),
                    "only foreign exceptions leave the loop as exceptions")
        if event == "cancel" and step > 0:
            ctx.require(raised is None, "trio cancellation ends the loop without an error")
    if ended or event != "none":
        ctx.require(not r.running.is_set() and r._is_shutdown.is_set(),
                    "on every exit running is cleared and shut-down is reported")


def shutdown_order(ctx):
    """shutdown(): request, wait for the loop to report, then stop the runtime"""
    delay = ctx.num("accept_delay")
    ctx.assume(delay > 0)
    r = _runner(accept_delay=delay)
    order = []
    real_wait = r._is_shutdown.wait

    def wait(timeout=None):
        order.append(("wait", r._must_shutdown))
        return real_wait(0)

    r._is_shutdown.wait = wait
    r._meta_runner.stop = lambda: order.append(("stop", r._must_shutdown))
    from . import rt
    o, t = rt.blocking(r.shutdown, bound=5)  # on a runner whose accept loop is not running it returns at once
    ctx.reach()
    ctx.require(o.kind == "return", "shutdown() of a runner that is not accepting returns", fatal=True)
    ctx.require(order == [("wait", True), ("stop", True)],
                "shutdown requests the stop first, waits for the accept loop, then stops the runtime")


def tasks(tier, seed):
    out = []
    for n in range(1, (2 if tier == "quick" else 3) + 1):
        out.append(Task(MOD, "guard_history", dict(ncalls=n), model="Z", weight=30 ** n, shards=1 if n < 3 else 16,
                        witness_every=1 if n < 3 else 3))
    out.append(Task(MOD, "accept_loop", dict(event="none", step=0), model="R"))
    for event in ("flag", "cancel", "error"):
        for step in range(0 if event == "flag" else 1, 7):
            out.append(Task(MOD, "accept_loop", dict(event=event, step=step), model="R"))
    out.append(Task(MOD, "shutdown_order", model="R"))
    return out


# -- enumerated real-runtime scenarios (NOT solver-decided; reported separately in evidence) ---------------
def _lifecycle_scenario(population):
    """real ServiceRunner: accept in a thread, shutdown() from this thread, then a new runner accepts again.
    -> list of problems (empty = fine)"""
    import asyncio
    import time

    from . import rt

    problems = []
    w = rt.World(accept_delay=0 if population == "zero_delay" else 0.02)
    runner = w.runner
    stop = w.stop_flag
    beats = []

    def successor_factory(depth):
        async def sleeper():
            try:
                await asyncio.sleep(3600)
            except asyncio.CancelledError:
                if depth > 0:  # a payload that hands over to a successor while the runtime is closing
                    runner.adopt(successor_factory(depth - 1), flavour=asyncio)
                raise
        return sleeper

    try:
        if population == "asyncio_sleeping":
            runner.adopt(successor_factory(0), flavour=asyncio)
        elif population == "asyncio_successor":
            runner.adopt(successor_factory(1), flavour=asyncio)
        elif population == "asyncio_successor_chain":
            runner.adopt(successor_factory(3), flavour=asyncio)
        elif population == "trio_successor":
            async def tsucc():
                try:
                    await trio.sleep(3600)
                finally:
                    async def successor():
                        await trio.sleep(3600)
                    runner.adopt(successor, flavour=trio)  # hands over while the runtime is closing
            runner.adopt(tsucc, flavour=trio)
        elif population == "trio_sleeping":
            async def tsleep():
                await trio.sleep(3600)
            runner.adopt(tsleep, flavour=trio)
        elif population == "thread_blocked":
            def blocked():
                while not stop.is_set():
                    time.sleep(0.01)
            runner.adopt(blocked, flavour=threading)
        elif population == "thread_keyboardinterrupt":
            release = threading.Event()

            def interrupted():
                release.wait(10)
                raise KeyboardInterrupt()
            runner.adopt(interrupted, flavour=threading)
        elif population == "mixed":
            for f in ("asyncio", "trio", "threading"):
                runner.adopt(w.bystander(f, beats), flavour=rt.FLAVOURS[f])
        w.start()
        if not w.wait_running():
            problems.append("runner never reported running")
            return problems
        # a concurrent accept is rejected and leaves the active runner undisturbed
        other = ServiceRunner(accept_delay=0.02)
        o, _ = rt.blocking(other.accept, bound=5)
        if not (o.kind == "raise" and isinstance(o.exc, RuntimeError)):
            problems.append("concurrent accept did not raise RuntimeError (%s)" % o.kind)
        if not (runner.running.is_set() and w.thread.is_alive()):
            problems.append("the active runner was disturbed by a rejected accept")
        o, _ = rt.blocking(runner.accept, bound=5)  # the same instance asked to accept again
        if not (o.kind == "raise" and isinstance(o.exc, RuntimeError)):
            problems.append("a second accept on the active runner did not raise RuntimeError (%s)" % o.kind)
        if not (runner.running.is_set() and not runner._is_shutdown.is_set() and w.thread.is_alive()):
            problems.append("the active runner no longer reports running after its own rejected second accept")
        time.sleep(0.05)
        if population == "thread_keyboardinterrupt":
            # a KeyboardInterrupt has the same effect as shutdown(): accept() returns
            release.set()
            out = w.join(bound=rt.BOUND)
            if out.kind == "hang":
                problems.append("a KeyboardInterrupt raised by a payload did not end accept() within %ss" % rt.BOUND)
        elif population == "failure_then_shutdown":
            def fail():
                raise KeyError("a payload fails")
            runner.adopt(fail, flavour=threading)
            out = w.join(bound=rt.BOUND)
            if out.kind != "raise":
                problems.append("accept() did not end by raising after a payload failed (%s)" % out.kind)
            o, t = rt.blocking(runner.shutdown, bound=rt.BOUND)  # shutting down a runner that has already ended
            if o.kind != "return":
                problems.append("shutdown() after accept() had ended did not return within %ss (%s %r)" % (rt.BOUND, o.kind, o.exc))
        else:
            o, t = rt.blocking(runner.shutdown, bound=rt.BOUND)
            if o.kind != "return":
                problems.append("shutdown() did not return within %ss (%s %r)" % (rt.BOUND, o.kind, o.exc))
            out = w.join(bound=5 if o.kind == "return" else 1)
            if out.kind != "return":
                problems.append("accept() did not return normally after shutdown (%s %r)" % (out.kind, out.exc))
            if population == "none":
                o2, t2 = rt.blocking(runner.shutdown, bound=rt.BOUND)  # a second shutdown returns as well
                if o2.kind != "return":
                    problems.append("a second shutdown() did not return within %ss (%s %r)" % (rt.BOUND, o2.kind, o2.exc))
    finally:
        try:
            w.cleanup()
        except Exception as e:
            problems.append("cleanup failed: %s" % e)
            return problems
    # restart: a new runner can accept again
    w2 = rt.World(accept_delay=0.02)
    try:
        w2.start()
        if not w2.wait_running(bound=10):
            problems.append("a new runner could not accept after the first one ended")
    finally:
        try:
            w2.cleanup()
        except Exception as e:
            problems.append("cleanup of the second runner failed: %s" % e)
    return problems


POPULATIONS = ("none", "asyncio_sleeping", "asyncio_successor", "asyncio_successor_chain", "trio_sleeping",
               "trio_successor", "thread_blocked", "thread_keyboardinterrupt", "failure_then_shutdown", "zero_delay", "mixed")


def extra(tier, seed):
    """enumerated, concrete, one schedule each: shutdown returns, accept ends normally, restart possible"""
    violations = []
    for pop in POPULATIONS:
        problems = _lifecycle_scenario(pop)
        if problems:  # confirm once more before believing it (timing)
            problems = _lifecycle_scenario(pop) if "poisoned" not in " ".join(problems) else problems
        for msg in problems[:1]:
            violations.append({"harness": "lifecycle_scenario", "label": "shutdown completes and restart is possible (enumerated scenario)",
                               "inputs": {"population": pop, "problem": msg}, "params": {}, "status": "confirmed",
                               "kind": "custom", "module": MOD, "property": PROPERTY})
        if problems and any("cleanup" in p for p in problems):
            break
    return {"violations": violations, "enumerated_lifecycle_scenarios": list(POPULATIONS),
            "enumerated_lifecycle_note": "concrete real-runtime scenarios on one OS schedule each: NOT solver-decided, "
                                         "bound %ss, re-run once before a problem is believed" % 12}


def replay(v):
    problems = _lifecycle_scenario(v["inputs"]["population"])
    print(problems)
    print("REPRODUCED" if problems else "not reproduced on this tree")
    return 1 if problems else 0


PREDICATES = {}
