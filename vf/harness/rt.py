"""Helpers to run the REAL cobald runtime (asyncio loop, trio thread, payload threads) inside a harness.

Only the values/outcomes/arguments are symbolic; the OS schedule is whatever this one run gets.  A run that
does not end within BOUND seconds is 'does not end' (a generous bound: correct runs take < 0.5 s)."""
import asyncio
import gc
import threading
import time

import trio

from cobald.daemon.runners.meta_runner import MetaRunner
from cobald.daemon.runners.service import ServiceRunner, ServiceUnit, service

from ..symx import EngineError

BOUND = 12.0
FLAVOURS = {"asyncio": asyncio, "trio": trio, "threading": threading, "asyncio_stubborn": asyncio}


class Outcome:
    def __init__(self):
        self.kind = "hang"  # return / raise / hang
        self.value = None
        self.exc = None
        self.wall = None


def blocking(fn, bound=BOUND):
    """run fn() in a thread -> Outcome"""
    out = Outcome()

    def target():
        t0 = time.time()
        try:
            out.value = fn()
            out.kind = "return"
        except BaseException as e:  # noqa: B036
            out.exc = e
            out.kind = "raise"
        out.wall = time.time() - t0

    t = threading.Thread(target=target, daemon=True)
    t.start()
    t.join(bound)
    return out, t


def flatten(exc, seen=None):
    """all exceptions reachable through exception groups and __cause__/__context__ chains"""
    seen = seen if seen is not None else []
    if exc is None or any(exc is s for s in seen):
        return seen
    seen.append(exc)
    for sub in getattr(exc, "exceptions", ()) or ():
        flatten(sub, seen)
    flatten(exc.__cause__, seen)
    return seen


def make_payload(flavour, body, at_call=False):
    """body() is plain python run inside the payload (may raise / return).  at_call: for coroutine flavours
    the payload is a plain callable that runs body() when CALLED and only then hands back an awaitable - a
    payload may fail before there is anything to await (wrong arguments, a factory that raises)"""
    if flavour == "threading":
        def payload():
            return body()
    elif at_call:
        def payload():
            value = body()

            async def done():
                return value
            return done()
    else:
        async def payload():
            return body()
    return payload


class World:
    """one real ServiceRunner (or MetaRunner) life: start, act, stop, clean up"""

    def __init__(self, accept_delay=0.02):
        self.runner = ServiceRunner(accept_delay=accept_delay)
        self.stop_flag = threading.Event()
        self.thread = None
        self.out = None
        self.keep = []

    # -- bystanders ---------------------------------------------------------------------------------
    def bystander(self, flavour, beats):
        stop = self.stop_flag
        if flavour == "threading":
            def idle():
                while not stop.is_set():
                    beats.append(time.time())
                    time.sleep(0.01)
        elif flavour == "asyncio_stubborn":
            # a coroutine that absorbs the first cancellation and carries on (e.g. a retry loop with a broad except)
            async def idle():
                absorbed = 0
                while not stop.is_set():
                    beats.append(time.time())
                    try:
                        await asyncio.sleep(0.01)
                    except asyncio.CancelledError:
                        absorbed += 1
                        if absorbed > 1:
                            raise
        elif flavour == "asyncio":
            async def idle():
                while not stop.is_set():
                    beats.append(time.time())
                    await asyncio.sleep(0.01)
        else:
            async def idle():
                while not stop.is_set():
                    beats.append(time.time())
                    await trio.sleep(0.01)
        return idle

    # -- life cycle ------------------------------------------------------------------------------------
    def start(self):
        # accept() itself blocks: run it in its own thread and watch it
        self._o = Outcome()

        def target():
            t0 = time.time()
            try:
                self._o.value = self.runner.accept()
                self._o.kind = "return"
            except BaseException as e:  # noqa: B036
                self._o.exc = e
                self._o.kind = "raise"
            self._o.wall = time.time() - t0

        self.thread = threading.Thread(target=target, daemon=True)
        self.thread.start()

    def wait_running(self, bound=BOUND):
        t0 = time.time()
        while time.time() - t0 < bound:
            if self.runner.running.is_set() or not self.thread.is_alive():
                return self.runner.running.is_set()
            time.sleep(0.002)
        return False

    def join(self, bound=BOUND):
        self.thread.join(bound)
        if self.thread.is_alive():
            o = Outcome()
            return o
        return self._o

    def cleanup(self):
        """leave the process reusable for the next path; raises EngineError if that is impossible"""
        self.stop_flag.set()
        if self.thread is not None and self.thread.is_alive():
            o, t = blocking(self.runner.shutdown, bound=10)
            self.thread.join(10)
            if self.thread.is_alive():
                raise EngineError("runtime could not be stopped after a scenario: process state is poisoned")
        self.keep.clear()
        gc.collect()


def run_meta(meta, bound=BOUND):
    """MetaRunner.run() in a thread -> Outcome (hang if it does not end)"""
    o, t = blocking(meta.run, bound)
    if t.is_alive():
        try:
            blocking(meta.stop, 10)
        finally:
            t.join(10)
        if t.is_alive():
            raise EngineError("MetaRunner.run() could not be stopped: process state is poisoned")
        o2 = Outcome()
        return o2
    return o


def live_units():
    return [u for u in ServiceUnit.units() if u.service() is not None]


__all__ = ["World", "run_meta", "flatten", "make_payload", "blocking", "FLAVOURS", "BOUND", "MetaRunner", "service"]
