"""CrossHair harnesses for C17 (line protocol escaping). Each private function is one condition:
its PEP-316 postcondition is searched for a counterexample over symbolic unicode strings.
Backslash is written chr(92), newline chr(10) (docstrings are read raw).

Reference decoders are written from the InfluxDB line-protocol grammar and are deliberately small and
position-specific:
  measurement: escapes ',' and ' '          keys / tag values: escape ',' '=' ' '
  string field: '"'-quoted, escapes '"' and backslash
"""
from cobald.monitor.format_line import escape_field, escape_key, line_protocol

import os

D = int(os.environ.get("C17_SHRINK", "0"))  # quick tier: one character less everywhere
BS = chr(92)
NL = chr(10)
CR = chr(13)


def _clean(s: str) -> bool:
    """what the protocol can express at all: no line breaks, no trailing backslash"""
    return NL not in s and CR not in s and not s.endswith(BS)


def _dec_ident(s: str, i: int, special: str, stops: str):
    """decode an identifier starting at s[i]: backslash escapes the characters in `special`;
    stops at the first unescaped character in `stops`.  -> (text, index of the stop or len(s))"""
    out = ""
    n = len(s)
    while i < n:
        c = s[i]
        if c == BS and i + 1 < n and s[i + 1] in special:
            out += s[i + 1]
            i += 2
            continue
        if c in stops:
            break
        out += c
        i += 1
    return out, i


def _dec_string(s: str, i: int):
    """decode a '"'-quoted string field starting at s[i] -> (text, index after the closing quote) or None"""
    n = len(s)
    if i >= n or s[i] != '"':
        return None
    i += 1
    out = ""
    while i < n:
        c = s[i]
        if c == BS and i + 1 < n and (s[i + 1] == '"' or s[i + 1] == BS):
            out += s[i + 1]
            i += 2
            continue
        if c == '"':
            return out, i + 1
        out += c
        i += 1
    return None


# -- kernels ----------------------------------------------------------------------------------------
def _key_kernel(k: str) -> bool:
    """
    pre: len(k) <= 4 - D
    pre: _clean(k)
    post: _
    """
    text = escape_key(k) + "=v,x"
    got, i = _dec_ident(text, 0, ",= ", ",= ")
    return got == k and text[i:] == "=v,x"


def _field_kernel(v: str) -> bool:
    """
    pre: len(v) <= 4 - D
    pre: NL not in v and CR not in v
    post: _
    """
    text = escape_field(v) + ",x=1"
    r = _dec_string(text, 0)
    return r is not None and r[0] == v and text[r[1]:] == ",x=1"


def _field_nonstring(n: int, b: bool) -> bool:
    """
    post: _
    """
    return escape_field(n) is n and escape_field(b) is b and escape_field(1.5) == 1.5


# -- through line_protocol -----------------------------------------------------------------------------
def _name_roundtrip(name: str) -> bool:
    """
    pre: len(name) <= 3 - D
    pre: _clean(name) and len(name) >= 1
    post: _
    """
    line = line_protocol(name, {"t": "v"}, {"f": 1})
    got, i = _dec_ident(line, 0, ", ", ", ")
    return got == name and line[i:] == ",t=v f=1" + NL


def _tag_value_roundtrip(v: str) -> bool:
    """
    pre: len(v) <= 4 - D
    pre: _clean(v) and len(v) >= 1
    post: _
    """
    line = line_protocol("m", {"a": v, "b": "w"}, {"f": 1})
    head = "m,a="
    if not line.startswith(head):
        return False
    got, i = _dec_ident(line, len(head), ",= ", ",= ")
    return got == v and line[i:] == ",b=w f=1" + NL


def _string_field_roundtrip(v: str) -> bool:
    """
    pre: len(v) <= 4 - D
    pre: NL not in v and CR not in v
    post: _
    """
    line = line_protocol("m", {}, {"f": v, "g": 2})
    head = "m f="
    if not line.startswith(head):
        return False
    r = _dec_string(line, len(head))
    return r is not None and r[0] == v and line[r[1]:] == ",g=2" + NL


def _pair_roundtrip(tv: str, fv: str) -> bool:
    """
    pre: len(tv) <= 2 - D and len(fv) <= 2 - D
    pre: _clean(tv) and len(tv) >= 1 and NL not in fv and CR not in fv
    post: _
    """
    line = line_protocol("m", {"t": tv}, {"f": fv})
    head = "m,t="
    if not line.startswith(head):
        return False
    got, i = _dec_ident(line, len(head), ",= ", ",= ")
    if got != tv or line[i:i + 3] != " f=":
        return False
    r = _dec_string(line, i + 3)
    return r is not None and r[0] == fv and line[r[1]:] == NL


class Num:
    """stands for an int / float / bool field value: its str() is the symbolic text"""

    def __init__(self, text):
        self.text = text

    def __str__(self):
        return self.text


def _numeric_field_verbatim(txt: str) -> bool:
    """
    pre: 1 <= len(txt) <= 5 - D
    pre: all(c in "0123456789-+.einfaTrueFls" for c in txt)
    post: _
    """
    line = line_protocol("m", None, {"n": Num(txt), "z": 1})
    return line == "m n=" + txt + ",z=1" + NL


def _bool_field(b: bool) -> bool:
    """
    post: _
    """
    line = line_protocol("m", None, {"b": b})
    return line == "m b=" + ("True" if b else "False") + NL


def _timestamp_omitted_or_last(v: str) -> bool:
    """
    pre: len(v) <= 2 and NL not in v and CR not in v
    post: _
    """
    with_ts = line_protocol("m", None, {"f": v}, 12)
    without = line_protocol("m", None, {"f": v})
    return with_ts == without[:-1] + " 12000000000" + NL


def _single_line(name: str, v: str) -> bool:
    """
    pre: len(name) <= 1 and len(v) <= 1
    pre: NL not in name and NL not in v
    post: _
    """
    line = line_protocol(name, {"t": v}, {"f": v})
    return line.endswith(NL) and NL not in line[:-1]


# -- reachability twins: must be REFUTED (otherwise the pre-conditions are vacuous) ----------------------
def _twin_key_kernel(k: str) -> bool:
    """
    pre: len(k) <= 4 - D
    pre: _clean(k)
    post: not _
    """
    text = escape_key(k) + "=v,x"
    got, i = _dec_ident(text, 0, ",= ", ",= ")
    return got == k and text[i:] == "=v,x"


def _twin_string_field(v: str) -> bool:
    """
    pre: len(v) <= 4 - D
    pre: NL not in v and CR not in v
    post: not _
    """
    line = line_protocol("m", {}, {"f": v, "g": 2})
    r = _dec_string(line, len("m f="))
    return r is not None and r[0] == v
