"""C07 - composite pools conserve demand and aggregate faithfully (Engine S; model R)."""
from cobald.composite.weighted import WeightedComposite
from cobald.composite.uniform import UniformComposite

from ..core import Task
from ..symx import And, Implies, Not, Or
from .common import RecPool, numeric_stubs, same
import cobald.composite.weighted as _w_mod
import cobald.composite.uniform as _u_mod

# int() / float() / math.floor / math.ceil as seen from the modules under test act on proxies (stubs, listed in evidence)
for _m in (_w_mod, _u_mod):
    for _mod, _name, _val in numeric_stubs(_m):
        setattr(_mod, _name, _val)

PROPERTY = "C07"
MOD = __name__
FUNCTIONS = [
    "cobald.composite.weighted:WeightedComposite.demand",
    "cobald.composite.weighted:WeightedComposite.supply",
    "cobald.composite.weighted:WeightedComposite.utilisation",
    "cobald.composite.weighted:WeightedComposite.allocation",
    "cobald.composite.weighted:WeightedComposite._undefined_fitness",
    "cobald.composite.weighted:WeightedComposite._total_weight",
    "cobald.composite.weighted:WeightedComposite.__init__",
    "cobald.composite.uniform:UniformComposite.demand",
    "cobald.composite.uniform:UniformComposite.supply",
    "cobald.composite.uniform:UniformComposite.utilisation",
    "cobald.composite.uniform:UniformComposite.allocation",
    "cobald.composite.uniform:UniformComposite.__init__",
]
MANIFEST = {
    "technique": "symbolic execution of the composite pools on z3 Real proxies; nonlinear real arithmetic decides conservation and proportionality",
    "text": "Bounded symbolic model checking of WeightedComposite / UniformComposite: for n <= 3 (thorough 4) "
            "children with arbitrary non-negative real supply/utilisation/allocation, every weighting "
            "attribute and every demand D >= 0, z3 proves on every feasible path (including the "
            "ZeroDivisionError branches, taken exactly where total weight 0 is satisfiable) that shares sum "
            "to D, are proportional, lie in [0, D], aggregates stay in the children's range and the "
            "fallback values are exactly 1.0 / 0.0; edit histories (state change, add, remove child) in "
            "between two writes. Enumerated next to it (concrete, reported as such): 288 tiny/huge IEEE magnitude states, where the real-number model cannot see overflow.",
    "note": "floats are exact reals: 'up to rounding' is proved as exact equality over R; child count is "
            "bounded; child values assumed >= 0 (documented pool model)",
    "design_ref": "DESIGN.md §3 C07",
}
STUBS = ["int / float / math.floor / math.ceil (as seen from the modules under test) accept number proxies"]
ASSUMPTIONS = [
    "children report supply, utilisation, allocation >= 0 and are well-behaved (store the demand they are given)",
    "D >= 0", "floats are exact reals (no IEEE rounding)",
]
OUTSIDE = ["IEEE rounding", "negative child values", "more than 4 children"]


def BOUNDS(tier):
    return {"children": "0..3" if tier == "quick" else "0..4",
            "weights": ["supply", "utilisation", "allocation"],
            "histories": "write, edit, write" if tier == "thorough" else "write; write, edit, write with n<=2"}


def _children(ctx, n, start=0):
    out = []
    for i in range(start, start + n):
        c = RecPool(demand=ctx.num("d%d" % i), supply=ctx.num("s%d" % i),
                    utilisation=ctx.num("u%d" % i), allocation=ctx.num("a%d" % i), name="c%d" % i)
        ctx.assume(And(c.supply >= 0, c.utilisation >= 0, c.allocation >= 0))
        out.append(c)
    return out


def _sum(xs):
    t = 0
    for x in xs:
        t = t + x
    return t


def _check_state(ctx, comp, children, weight, tag=""):
    """aggregation obligations on the current child set"""
    n = len(children)
    sup = comp.supply
    ctx.observe(tag + "supply", sup)
    ctx.require(sup == _sum(c.supply for c in children), tag + "supply is the sum of the children's supplies")
    for attr in ("utilisation", "allocation"):
        val = getattr(comp, attr)
        ctx.observe(tag + attr, val)
        xs = [getattr(c, attr) for c in children]
        if n == 0:
            ctx.require(val == 1.0, tag + attr + " is 1.0 without children")
            continue
        if weight is None:
            fallback = False
        else:
            W = _sum(getattr(c, weight) for c in children)
            fallback = W == 0
            total_supply = _sum(c.supply for c in children)
            ctx.require(val == 1.0, tag + attr + " is 1.0 without supply (weights vanish)",
                        antecedent=And(fallback, total_supply == 0))
            ctx.require(val == 0.0, tag + attr + " is 0.0 when weights vanish although there is supply",
                        antecedent=And(fallback, total_supply > 0))
        if n <= 3:
            in_range = And(Or(*[x <= val for x in xs]), Or(*[val <= x for x in xs]))
        else:
            # fork on the order of the children's values (python's own min/max on proxies): the
            # remaining obligation is a single polynomial inequality per side
            in_range = And(min(xs) <= val, val <= max(xs))
        ctx.require(in_range, tag + attr + " within the range spanned by the children",
                    antecedent=Not(fallback))


def _check_write(ctx, comp, children, weight, D, tag=""):
    n = len(children)
    ctx.require(same(comp.demand, D), tag + "composite reads back exactly D")
    if n == 0:
        return
    shares = [c.demand for c in children]
    for i, s in enumerate(shares):
        ctx.observe(tag + "share%d" % i, s)
    ctx.require(_sum(shares) == D, tag + "children's demands sum to D")
    for i, (c, s) in enumerate(zip(children, shares)):
        ctx.require(And(0 <= s, s <= D), tag + "share within [0, D]")
        ctx.require(len(c.writes) >= 1, tag + "every child received a demand")
        if weight is None:
            ctx.require(s * n == D, tag + "uniform share is D/n")
        else:
            W = _sum(getattr(k, weight) for k in children)
            w = getattr(c, weight)
            ctx.require(s * W == D * w, tag + "share proportional to weight", antecedent=W > 0)
            ctx.require(s * n == D, tag + "equal shares when all weights are zero", antecedent=W == 0)


def one_write(ctx, n, weight):
    children = _children(ctx, n)
    if weight is None:
        comp = UniformComposite(*children)
    else:
        comp = WeightedComposite(*children, weight=weight)
    ctx.require(comp.demand == _sum(c.demand for c in children),
                "initial demand is the sum of the children's demands")
    D = ctx.num("D")
    ctx.assume(D >= 0)
    for c in children:
        c.writes.clear()
    comp.demand = D
    ctx.reach()
    for c in children:
        ctx.require(len(c.writes) == (1 if n else 0), "each child written exactly once")
    _check_write(ctx, comp, children, weight, D)
    _check_state(ctx, comp, children, weight)


def two_empty(ctx, weight):
    """two composites constructed without children and filled afterwards do not share anything"""
    mk = (lambda: UniformComposite()) if weight is None else (lambda: WeightedComposite(weight=weight))
    c1, c2 = mk(), mk()
    k1, k2 = _children(ctx, 1), _children(ctx, 2, start=1)
    for k in k1:
        c1.children.append(k)
    for k in k2:
        c2.children.append(k)
    D1, D2 = ctx.num("D1"), ctx.num("D2")
    ctx.assume(And(D1 >= 0, D2 >= 0))
    c1.demand = D1
    c2.demand = D2
    ctx.reach()
    ctx.require(len(c1.children) == 1 and len(c2.children) == 2, "each composite has its own children")
    _check_write(ctx, c2, k2, weight, D2, "second: ")
    ctx.require(k1[0].demand == D1, "first: the only child carries the whole demand")
    _check_state(ctx, c1, k1, weight, "first: ")
    _check_state(ctx, c2, k2, weight, "second: ")


EDITS = ("state", "append", "remove")


def edit_history(ctx, n, weight, edit):
    children = _children(ctx, n)
    comp = UniformComposite(*children) if weight is None else WeightedComposite(*children, weight=weight)
    D1 = ctx.num("D1")
    ctx.assume(D1 >= 0)
    comp.demand = D1
    _check_write(ctx, comp, children, weight, D1, "w1: ")
    if edit == "state":
        if not children:
            ctx.cut("no child to change")
        k = ctx.choice("which", len(children))
        c = children[k]
        c.supply, c.utilisation, c.allocation = ctx.num("s_new"), ctx.num("u_new"), ctx.num("a_new")
        ctx.assume(And(c.supply >= 0, c.utilisation >= 0, c.allocation >= 0))
    elif edit == "append":
        new = _children(ctx, 1, start=n)[0]
        comp.children.append(new)
        children = children + [new]
    elif edit == "remove":
        if not children:
            ctx.cut("no child to remove")
        k = ctx.choice("which", len(children))
        gone = children[k]
        comp.children.remove(gone)
        children = [c for c in children if c is not gone]
    _check_state(ctx, comp, children, weight, "edit: ")
    ctx.require(same(comp.demand, D1), "edit: composite still reads back D1")
    D2 = ctx.num("D2")
    ctx.assume(D2 >= 0)
    comp.demand = D2
    ctx.reach()
    _check_write(ctx, comp, children, weight, D2, "w2: ")
    _check_state(ctx, comp, children, weight, "w2: ")


def tasks(tier, seed):
    out = []
    nmax = 3 if tier == "quick" else 4
    for weight in (None, "supply", "utilisation", "allocation"):
        for n in range(0, nmax + 1):
            out.append(Task(MOD, "one_write", dict(n=n, weight=weight), model="R", weight=n))
        out.append(Task(MOD, "two_empty", dict(weight=weight), model="R", weight=3))
        hmax = 2 if tier == "quick" else 3
        for n in range(0, hmax + 1):
            for edit in EDITS:
                if n == 0 and edit != "append":
                    continue
                out.append(Task(MOD, "edit_history", dict(n=n, weight=weight, edit=edit), model="R",
                                weight=2 * n))
    return out


def extra(tier, seed):
    """the weight attribute is validated (finite catalogue, enumerated)"""
    errs = []
    for w in ("demand", "Supply", "", "consumption"):
        try:
            WeightedComposite(RecPool(), weight=w)
            errs.append({"harness": "ctor_weight", "label": "invalid weight %r accepted" % w,
                         "inputs": {"weight": w}, "params": {}, "status": "confirmed",
                         "property": PROPERTY, "kind": "custom", "module": MOD})
        except AssertionError:
            pass
    # tiny and huge magnitudes in real IEEE doubles (enumerated, concrete): the symbolic run treats floats as
    # reals and cannot see overflow / underflow of intermediate results
    import math
    m = 0
    for weight in (None, "supply", "utilisation", "allocation"):
        for scale in (1e-200, 1e-100, 1e-20, 1.0, 1e20, 1e100):
            for D in (1e-100, 1.0, 1e10, 1e150):
                if D * scale * 4 > 1e300:
                    continue  # the product D * weight itself leaves the double range: outside the claim
                for ws in ((1.0, 3.0), (0.0, 2.0, 2.0), (1.0, 1.0, 2.0)):
                    m += 1
                    kids = [RecPool(supply=w * scale, utilisation=w * scale, allocation=w * scale) for w in ws]
                    comp = UniformComposite(*kids) if weight is None else WeightedComposite(*kids, weight=weight)
                    comp.demand = D
                    shares = [k.demand for k in kids]
                    total_w = sum(ws)
                    want = [D / len(ws)] * len(ws) if weight is None else [D * w / total_w for w in ws]
                    ok = all(math.isfinite(x) for x in shares) and math.isclose(sum(shares), D, rel_tol=1e-9) \
                        and all(math.isclose(x, y, rel_tol=1e-9, abs_tol=D * 1e-12) for x, y in zip(shares, want))
                    if not ok:
                        errs.append({"harness": "ieee_magnitudes", "label": "shares are finite, sum to D and are proportional at tiny / huge magnitudes",
                                     "inputs": {"weight": weight, "scale": scale, "D": D, "weights": list(ws), "shares": [repr(x) for x in shares]},
                                     "params": {}, "status": "confirmed", "property": PROPERTY, "kind": "custom", "module": MOD})
    return {"violations": errs, "invalid_weights_checked": 4, "ieee_magnitude_states": m}


def replay(v):
    if v.get("harness") == "ieee_magnitudes":
        hit = [x for x in extra("quick", 0)["violations"] if x["harness"] == "ieee_magnitudes"]
        print("REPRODUCED" if hit else "not reproduced on this tree")
        return 1 if hit else 0
    try:
        WeightedComposite(RecPool(), weight=v["inputs"]["weight"])
    except AssertionError:
        print("not reproduced on this tree")
        return 0
    print("REPRODUCED")
    return 1


PREDICATES = {}
