"""Engine X: run CrossHair conditions, one process each, and classify the verdicts."""
import concurrent.futures as cf
import os
import re
import subprocess
import sys
import time

ROOT = os.path.dirname(os.path.dirname(os.path.abspath(__file__)))


def _line_of(path, fn):
    for i, line in enumerate(open(path), 1):
        if line.startswith("def %s(" % fn):
            return i + 1
    raise KeyError(fn)


def run_condition(path, fn, timeout, env=None):
    """-> dict(fn, verdict in confirmed/counterexample/inconclusive/error, detail, wall)"""
    line = _line_of(path, fn)
    e = dict(os.environ)
    e["PYTHONPATH"] = ROOT + os.pathsep + e.get("PYTHONPATH", "")
    if env:
        e.update(env)
    cmd = [sys.executable, "-m", "crosshair", "check", "--report_all", "--per_condition_timeout", str(timeout),
           "%s:%d" % (path, line)]
    t0 = time.time()
    try:
        r = subprocess.run(cmd, capture_output=True, text=True, env=e, timeout=timeout * 3 + 120, cwd=ROOT)
        out = (r.stdout + r.stderr).strip()
    except subprocess.TimeoutExpired:
        return {"fn": fn, "verdict": "inconclusive", "detail": "process timeout", "wall": time.time() - t0}
    wall = time.time() - t0
    if "Confirmed over all paths" in out:
        return {"fn": fn, "verdict": "confirmed", "detail": "", "wall": wall}
    m = re.search(r"error: (false when calling .*|.* when calling .*)", out)
    if m:
        return {"fn": fn, "verdict": "counterexample", "detail": m.group(1), "wall": wall}
    if "Not confirmed" in out or "Unable to meet precondition" in out:
        return {"fn": fn, "verdict": "inconclusive", "detail": out.splitlines()[-1][-200:], "wall": wall}
    return {"fn": fn, "verdict": "error", "detail": out[-400:], "wall": wall}


def run_conditions(path, conds, env=None, workers=16):
    """conds: list of (fn, timeout)"""
    with cf.ThreadPoolExecutor(max_workers=workers) as ex:
        futs = [ex.submit(run_condition, path, fn, to, env) for fn, to in conds]
        return [f.result() for f in futs]


def parse_call(detail):
    """'false when calling f('x', 3) (which returns False)' -> (fn, argument source text)"""
    m = re.search(r"when calling (\w+)\((.*)\) \(which", detail)
    if not m:
        return None, None
    return m.group(1), m.group(2)
