"""C03 - every adopted payload and every service is started exactly once (PARTIAL; Engine S, real runtime).

Symbolic: the number of payloads per flavour, every argument value (identity is checked), the number of
polling cycles waited.  Scenario parameters: submitting context, service population and creation time.
One OS schedule per scenario; submission racing with shutdown is outside the claim."""
import asyncio
import gc
import threading
import time

import trio

from cobald.daemon.runners.service import service

from ..core import Task
from . import rt
from .common import same

PROPERTY = "C03"
MOD = __name__
FUNCTIONS = [
    "cobald.daemon.runners.service:ServiceRunner.adopt",
    "cobald.daemon.runners.service:ServiceRunner._accept_services",
    "cobald.daemon.runners.service:ServiceRunner._adopt_services",
    "cobald.daemon.runners.service:ServiceUnit.start",
    "cobald.daemon.runners.service:ServiceUnit.units",
    "cobald.daemon.runners.service:service",
    "cobald.daemon.runners.meta_runner:MetaRunner.register_payload",
    "cobald.daemon.runners.meta_runner:MetaRunner._unqueue_payloads",
    "cobald.daemon.runners.trio_runner:TrioRunner.register_payload",
    "cobald.daemon.runners.trio_runner:TrioRunner._manage_payloads_trio",
    "cobald.daemon.runners.asyncio_runner:AsyncioRunner.register_payload",
    "cobald.daemon.runners.asyncio_runner:AsyncioRunner._setup_payload",
    "cobald.daemon.runners.thread_runner:ThreadRunner.register_payload",
]
MANIFEST = {
    "technique": "symbolic execution of the real multi-threaded runtime on symbolic payload counts and argument values; start events are compared by identity",
    "text": "PARTIAL claim: for every scenario of a fixed list (submitting context: before start / outside thread / "
            "thread, asyncio, trio payload; service population created before / after start, incl. a service released "
            "and replaced between polls), on ONE OS schedule each, and for ALL values of the symbolic inputs (0..2 "
            "payloads per flavour, arity 0..2, keyword names from a small alphabet, every argument value a z3 integer "
            "proxy, 1..3 polling cycles waited): every payload and every live service appears exactly once in the "
            "start log written by the payloads themselves, under the requested flavour, with the very argument "
            "objects; every adopt returned None and did not raise. Next to the solver-decided claim, seven ENUMERATED real-runtime scenarios (adopt while a trio payload is still in its shielded cleanup, after shutdown() and after a failure) are run concretely and reported as such.",
    "note": "NOT claimed: submission racing with a shutdown in progress (the property text itself notes adopt may still "
            "raise ClosedResourceError there), interleavings of several submitters, timing",
    "design_ref": "DESIGN.md §4 C03",
}
STUBS = []
ASSUMPTIONS = ["one OS schedule per scenario", "quiescence = every expected start seen, or 8 s; then the configured number of extra polling cycles"]
OUTSIDE = ["submission racing with shutdown", "several concurrent submitters", "more than 2 payloads per flavour"]

FLAV = ("asyncio", "trio", "threading")
KW = [(), ("k",), ("k", "timeout")]


def BOUNDS(tier):
    return {"payloads_per_flavour": "0..2", "arity": "0..2", "keywords": [list(k) for k in KW], "polling_cycles": "1..3"}


def _context():
    """what the running payload can tell about where it runs"""
    info = {"thread": threading.get_ident()}
    try:
        info["asyncio_task"] = asyncio.current_task() is not None
    except RuntimeError:
        info["asyncio_task"] = False
    try:
        trio.lowlevel.current_task()
        info["trio_task"] = True
    except RuntimeError:
        info["trio_task"] = False
    return info


def _payload(flavour, pid, log):
    if flavour == "threading":
        def payload(*args, **kwargs):
            log.append((pid, args, kwargs, _context()))
    else:
        async def payload(*args, **kwargs):
            log.append((pid, args, kwargs, _context()))
    payload.__name__ = "payload_%s" % pid
    return payload


def _wait(cond, bound=8.0):
    t0 = time.time()
    while time.time() - t0 < bound:
        if cond():
            return True
        time.sleep(0.005)
    return cond()


def adoption(ctx, context, services_before=0, services_after=0, churn=False, fixed_cycles=None, redecorated=False):
    w = rt.World(accept_delay=0.02)
    runner = w.runner
    log, adopt_results = [], []
    plan = []  # (pid, flavour, args, kwargs)
    for f in FLAV:
        n = ctx.choice("count_" + f, 3)
        for j in range(n):
            arity = (j + FLAV.index(f)) % 3
            kws = KW[(j + 2 * FLAV.index(f)) % 3]
            pid = "%s%d" % (f, j)
            args = tuple(ctx.num("%s_a%d" % (pid, i), "int") for i in range(arity))
            kwargs = {k: ctx.num("%s_%s" % (pid, k), "int") for k in kws}
            plan.append((pid, f, args, kwargs))
    cycles = 1 + ctx.choice("extra_cycles", 3, fixed=fixed_cycles)
    builtin_arg = ctx.num("builtin_arg", "int")
    svc_log = []
    made = []

    def make_service(sid, flavour):
        F = rt.FLAVOURS[flavour]
        # every other service is container-like and currently empty: falsy, but alive all the same
        empty = len(made) % 2 == 1
        if flavour == "threading":
            @service(flavour=F)
            class Svc:
                def run(self):
                    svc_log.append((sid, _context()))

                if empty:
                    def __len__(self):
                        return 0
        else:
            @service(flavour=F)
            class Svc:
                async def run(self):
                    svc_log.append((sid, _context()))

                if empty:
                    def __len__(self):
                        return 0
        if sid.startswith("before") and redecorated:
            # a derived service class with its own __init__ that does not chain to the base class
            class Preset(Svc):
                def __init__(self):
                    self.preset = True
            s = Preset()
        elif sid.startswith("after") and redecorated:
            # a subclass decorated again for another flavour runs under ITS flavour
            other = FLAV[(FLAV.index(flavour) + 1) % 3]
            if other == "threading":
                @service(flavour=rt.FLAVOURS[other])
                class Sub(Svc):
                    def run(self):
                        svc_log.append((sid, _context()))
            else:
                @service(flavour=rt.FLAVOURS[other])
                class Sub(Svc):
                    async def run(self):
                        svc_log.append((sid, _context()))
            s = Sub()
            flavour = other
        else:
            s = Svc()
        made.append((sid, flavour, s))
        return s

    collected = []

    def submit_all():
        # a payload need not be a python function: a builtin bound method (no __module__, no __qualname__ of its own)
        try:
            adopt_results.append(("builtin", "returned", runner.adopt(collected.append, builtin_arg, flavour=rt.FLAVOURS["threading"])))
        except BaseException as e:  # noqa: B036
            adopt_results.append(("builtin", "raised", e))
        for pid, f, args, kwargs in plan:
            try:
                r = runner.adopt(_payload(f, pid, log), *args, flavour=rt.FLAVOURS[f], **kwargs)
                adopt_results.append((pid, "returned", r))
            except BaseException as e:  # noqa: B036
                adopt_results.append((pid, "raised", e))

    stop = w.stop_flag
    try:
        for i in range(services_before):
            make_service("before%d" % i, FLAV[i % 3])
        if context == "before":
            submit_all()
        elif context == "foreign_loop":
            pass  # submitted after start, from a coroutine of a private asyncio loop in an outside thread
        elif context in FLAV:
            if context == "threading":
                def outer():
                    submit_all()
                    while not stop.is_set():
                        time.sleep(0.01)
            elif context == "asyncio":
                async def outer():
                    submit_all()
                    while not stop.is_set():
                        await asyncio.sleep(0.01)
            else:
                async def outer():
                    submit_all()
                    while not stop.is_set():
                        await trio.sleep(0.01)
            runner.adopt(outer, flavour=rt.FLAVOURS[context])
        w.start()
        ok = w.wait_running()
        ctx.require(ok, "the runtime reports running", fatal=True)
        if context == "outside":
            submit_all()
        elif context == "foreign_loop":
            async def in_private_loop():
                submit_all()

            th = threading.Thread(target=lambda: asyncio.run(in_private_loop()), daemon=True)
            th.start()
            th.join(10)
        for i in range(services_after):
            make_service("after%d" % i, FLAV[(i + 1) % 3])
        expected_services = services_before + services_after
        if churn:
            # a finished service is released and a new one is created within one polling interval
            _wait(lambda: len(svc_log) >= expected_services)
            while made:
                made.pop()
            gc.collect()
            for i in range(services_after or 1):
                make_service("replacement%d" % i, FLAV[(i + 2) % 3])
            expected_services += services_after or 1
        _wait(lambda: len(log) >= len(plan) and len(svc_log) >= expected_services and len(collected) >= 1)
        time.sleep(0.02 * cycles + 0.05)  # further polling cycles: nothing may start twice
        alive = w.thread.is_alive()
        ctx.require(alive, "starting payloads and services does not end the runtime")
        # what has started BEFORE the harness stops the runtime (a payload that only starts because the
        # shutdown wakes its loop was not started by adopt)
        frozen = (list(log), list(svc_log))
        collected_frozen = list(collected)
    finally:
        w.cleanup()
    log, svc_log = frozen  # payload closures keep appending to the original lists; judge the frozen copies
    ctx.reach()
    ctx.observe("started", sorted(p for p, *_ in log))
    ctx.observe("services", sorted(s for s, _ in svc_log))
    ctx.require(sorted(p for p, *_ in log) == sorted(p for p, *_ in plan),
                "every adopted payload is started exactly once (none lost, none duplicated)")
    by_pid = {p: (a, k, c) for p, a, k, c in log}
    for pid, f, args, kwargs in plan:
        if pid not in by_pid:
            continue
        a, k, c = by_pid[pid]
        ctx.require(len(a) == len(args) and all(same(x, y) for x, y in zip(a, args)),
                    "payload receives exactly the positional arguments supplied")
        ctx.require(sorted(k) == sorted(kwargs) and all(same(k[n], kwargs[n]) for n in kwargs),
                    "payload receives exactly the keyword arguments supplied")
        if f == "asyncio":
            ctx.require(c["asyncio_task"] and not c["trio_task"], "asyncio payload runs as an asyncio task")
        elif f == "trio":
            ctx.require(c["trio_task"], "trio payload runs as a trio task")
        else:
            ctx.require(not c["asyncio_task"] and not c["trio_task"], "thread payload runs outside both event loops")
    ctx.require(all(kind == "returned" and r is None for _, kind, r in adopt_results) and len(adopt_results) == len(plan) + 1,
                "adopt returns None and does not raise")
    ctx.require(len(collected_frozen) == 1 and same(collected_frozen[0], builtin_arg),
                "a builtin bound method adopted as a thread payload runs exactly once with its argument")
    names = sorted(s for s, _ in svc_log)
    want = ["before%d" % i for i in range(services_before)] + ["after%d" % i for i in range(services_after)]
    if churn:
        want += ["replacement%d" % i for i in range(services_after or 1)]
    ctx.require(names == sorted(want), "the run method of every live service is started exactly once")
    flavour_of = {sid: f for sid, f, _ in made}
    for sid, c in svc_log:
        f = flavour_of.get(sid)
        if f == "asyncio":
            ctx.require(c["asyncio_task"] and not c["trio_task"], "an asyncio service runs as an asyncio task")
        elif f == "trio":
            ctx.require(c["trio_task"], "a trio service runs as a trio task")
        elif f == "threading":
            ctx.require(not c["asyncio_task"] and not c["trio_task"], "a thread service runs outside both event loops")


def tasks(tier, seed):
    out = []
    wit = 3 if tier == "quick" else 1
    pops = [(0, 0, False), (1, 0, False), (0, 1, False), (2, 1, False), (1, 2, False), (1, 1, True), (0, 2, True)]
    out.append(Task(MOD, "adoption", dict(context="foreign_loop", services_before=0, services_after=0, fixed_cycles=0 if tier == "quick" else None),
                    model="Z", weight=10, shards=8, witness_every=wit))
    out.append(Task(MOD, "adoption", dict(context="outside", services_before=1, services_after=2, redecorated=True,
                                          fixed_cycles=1 if tier == "quick" else None),
                    model="Z", weight=10, shards=8, witness_every=wit))
    for i, context in enumerate(("before", "outside") + FLAV):
        for j, (sb, sa, churn) in enumerate(pops):
            if tier == "quick" and (i + j) % 3 != 0 and not (context == "trio" and j == 0):
                continue
            out.append(Task(MOD, "adoption", dict(context=context, services_before=sb, services_after=sa, churn=churn,
                                                  fixed_cycles=(i + j) % 3 if tier == "quick" else None),
                            model="Z", weight=10, shards=8, witness_every=wit))
    return out


# -- enumerated real-runtime scenario (NOT solver-decided): adopt while payload cleanup is still running --------
def _adopt_during_cleanup(target_flavour, trigger="shutdown"):
    """the runtime is stopping (shutdown(), or a failing payload) and a trio payload is still inside its shielded
    cleanup: adopt must not raise"""
    w = rt.World(accept_delay=0.02)
    runner = w.runner
    cleaning = threading.Event()
    problems = []

    inside = []

    async def stubborn():
        try:
            await trio.sleep(3600)
        finally:
            with trio.CancelScope(shield=True):
                cleaning.set()
                await trio.sleep(0.3)
                if target_flavour == "trio_inside":  # the cleaning payload itself hands work over
                    async def successor():
                        return None
                    try:
                        inside.append(("returned", runner.adopt(successor, flavour=trio)))
                    except BaseException as e:  # noqa: B036
                        inside.append(("raised", e))
                await trio.sleep(0.3)

    if target_flavour == "threading":
        def late():
            return None
    else:
        async def late():
            return None
    try:
        runner.adopt(stubborn, flavour=trio)
        w.start()
        if not w.wait_running():
            return ["runner never reported running"]
        time.sleep(0.1)
        if trigger == "shutdown":
            t = threading.Thread(target=runner.shutdown, daemon=True)
        else:
            def fail():
                raise KeyError("a payload fails")
            t = threading.Thread(target=lambda: runner.adopt(fail, flavour=threading), daemon=True)
        t.start()
        if not cleaning.wait(10):
            problems.append("the trio payload was not cancelled by shutdown()")
        else:
            time.sleep(0.1)
            try:
                r = runner.adopt(late, flavour=rt.FLAVOURS[target_flavour]) if target_flavour != "trio_inside" else None
                if r is not None:
                    problems.append("adopt returned %r" % (r,))
            except BaseException as e:  # noqa: B036
                problems.append("adopt(flavour=%s) raised %s: %s while the runtime was finishing payload cleanup"
                                % (target_flavour, type(e).__name__, e))
        t.join(rt.BOUND)
        if t.is_alive():
            problems.append("shutdown() did not return")
        out = w.join(bound=10)
        if trigger == "shutdown" and out.kind != "return":
            problems.append("accept() did not return normally after shutdown (%s %r)" % (out.kind, out.exc))
        if trigger != "shutdown" and out.kind != "raise":
            problems.append("accept() did not end by raising after a payload failed (%s)" % out.kind)
        if target_flavour == "trio_inside" and inside != [("returned", None)]:
            problems.append("adopt from inside a trio payload's cleanup: %r" % (inside,))
    finally:
        try:
            w.cleanup()
        except Exception as e:
            problems.append("cleanup failed: %s" % e)
    return problems


def extra(tier, seed):
    violations = []
    for f, trigger in [(f, "shutdown") for f in FLAV + ("trio_inside",)] + [(f, "failure") for f in FLAV]:
        problems = _adopt_during_cleanup(f, trigger)
        if problems:
            problems = _adopt_during_cleanup(f, trigger)  # believe it only if it happens twice
        for msg in problems[:1]:
            violations.append({"harness": "adopt_during_cleanup", "label": "adopt does not raise while payload cleanup is finishing (enumerated scenario)",
                               "inputs": {"flavour": f, "trigger": trigger, "problem": msg}, "params": {}, "status": "confirmed",
                               "kind": "custom", "module": MOD, "property": PROPERTY})
    return {"violations": violations, "enumerated_shutdown_scenarios": ["adopt(%s) during shielded trio cleanup" % f for f in FLAV + ("trio_inside",)],
            "enumerated_note": "concrete real-runtime scenarios on one OS schedule each: NOT solver-decided"}


def replay(v):
    problems = _adopt_during_cleanup(v["inputs"]["flavour"], v["inputs"].get("trigger", "shutdown"))
    print(problems)
    print("REPRODUCED" if problems else "not reproduced on this tree")
    return 1 if problems else 0


PREDICATES = {}
