"""C01 - background failures always stop the daemon (PARTIAL claim; Engine S on the real runtime).

The real, multi-threaded runtime runs natively; what is symbolic is everything it must be INDIFFERENT to: the
value a failing payload returns (int / float / bool / str / list / tuple families, so that 0, 0.0, False, '',
[], () are points of the families), the exception class and its argument, the registration path.  On correct
code no branch depends on them (one path, no decisions); any value-dependent treatment forks and the solver
produces the value.  One OS schedule per scenario: interleavings are outside the claim."""
import asyncio
import threading
import time

import trio

from cobald.daemon.runners.base_runner import OrphanedReturn
from cobald.daemon.runners.meta_runner import MetaRunner
from cobald.daemon.runners.service import service

from ..core import Task
from ..symx import is_sym
from . import rt
from .common import same

PROPERTY = "C01"
MOD = __name__
FUNCTIONS = [
    "cobald.daemon.runners.asyncio_runner:AsyncioRunner._monitor_payload",
    "cobald.daemon.runners.asyncio_runner:AsyncioRunner.manage_payloads",
    "cobald.daemon.runners.asyncio_runner:AsyncioRunner.register_payload",
    "cobald.daemon.runners.thread_runner:ThreadRunner._monitor_payload",
    "cobald.daemon.runners.thread_runner:ThreadRunner._set_failure",
    "cobald.daemon.runners.trio_runner:TrioRunner._monitor_payload",
    "cobald.daemon.runners.trio_runner:TrioRunner._manage_payloads_trio",
    "cobald.daemon.runners.trio_runner:TrioRunner.register_payload",
    "cobald.daemon.runners.base_runner:BaseRunner.run",
    "cobald.daemon.runners.base_runner:OrphanedReturn.__init__",
    "cobald.daemon.runners.meta_runner:MetaRunner.register_payload",
    "cobald.daemon.runners.meta_runner:MetaRunner.run",
    "cobald.daemon.runners.meta_runner:MetaRunner._manage_runners",
    "cobald.daemon.runners.meta_runner:MetaRunner._unqueue_payloads",
    "cobald.daemon.runners.service:ServiceRunner.adopt",
    "cobald.daemon.runners.service:ServiceRunner.accept",
    "cobald.daemon.runners.service:ServiceRunner._adopt_services",
    "cobald.daemon.runners.service:ServiceUnit.start",
]
MANIFEST = {
    "technique": "symbolic execution of the real multi-threaded runtime on symbolic payload outcomes (value families, exception class/argument); the solver decides every value-dependent branch",
    "text": "PARTIAL claim: for every scenario of a fixed list (flavour x registration path: queued before MetaRunner.run / "
            "ServiceRunner.accept, adopted after start from an outside thread, adopted from inside a payload of each flavour, "
            "run() of a service created before / after start; 0-2 bystanders), on ONE OS schedule each, and for ALL values "
            "of the symbolic outcome: the blocking run ends by raising; for Exception subclasses and non-None returns it is "
            "RuntimeError whose cause (through exception groups) holds the very exception object or an OrphanedReturn whose "
            ".value is the very returned object. The deciding fact is the path condition: the run executes on z3-backed "
            "proxies, so any truthiness test / comparison / formatting that depends on the value forks and the solver "
            "produces the distinguishing value (0, '', (), ...), which is replayed concretely.",
    "note": "NOT claimed: thread interleavings, near-simultaneous failures, timing; exceptions reserved for cancellation "
            "(CancelledError, trio.Cancelled); SIGINT delivery. 'does not end' = not within 12 s (correct runs take < 0.5 s)",
    "design_ref": "DESIGN.md §4 C01",
}
STUBS = []
ASSUMPTIONS = ["one OS schedule per scenario", "a run that has not ended after 12 s never ends",
               "StopIteration is replaced by RuntimeError by the language itself in coroutines (PEP 479): only 'ends by raising "
               "RuntimeError whose cause chain holds it' is demanded"]
OUTSIDE = ["all interleavings and timing", "several payloads failing at nearly the same time", "cancellation exceptions",
           "signal delivery"]

RETURN_FAMILIES = ("int", "float", "bool", "str", "list", "tuple")


class UserError(Exception):
    pass


class UserBase(BaseException):
    pass


class UserRuntimeError(RuntimeError):
    pass


class EmptyErrors(Exception):
    """a collection-like error that is currently empty: a falsy exception instance"""

    def __len__(self):
        return 0


EXCEPTIONS = [Exception, KeyError, OSError, UserError, ValueError, StopIteration, UserBase, SystemExit, GeneratorExit,
              KeyboardInterrupt, NotImplementedError, UserRuntimeError, EmptyErrors, asyncio.CancelledError]


def BOUNDS(tier):
    return {"scenarios": "see tasks", "bystanders": "0..2", "return_families": RETURN_FAMILIES,
            "exception_classes": [e.__name__ for e in EXCEPTIONS], "sequence_length": "0..3"}


def _outcome(ctx):
    """-> (body, kind, payload-object-to-find)"""
    k = ctx.choice("outcome", len(RETURN_FAMILIES) + len(EXCEPTIONS))
    if k < len(RETURN_FAMILIES):
        fam = RETURN_FAMILIES[k]
        if fam == "int":
            v = ctx.num("value", "int")
        elif fam == "float":
            v = ctx.num("value", "float")
        elif fam == "bool":
            v = ctx.boolvalue("value")
        else:
            v = ctx.seq("length", fam)
        return (lambda: v), ("return", fam), v
    cls = EXCEPTIONS[k - len(RETURN_FAMILIES)]
    exc = cls(ctx.num("arg", "int"))

    def body():
        raise exc

    return body, ("raise", cls), exc


def _bound(kind, flavour):
    """how long a run may take before it is 'does not end': correct runs take < 0.5 s.  The known finding F14
    (asyncio payload raising CancelledError) is a run that never ends, on every such path: a shorter bound there
    keeps the price of re-confirming it on every run low (a run mistaken for a hang would still match F14 only)"""
    if kind[0] == "raise" and kind[1] is asyncio.CancelledError and flavour == "asyncio":
        return 4.0
    return rt.BOUND


def _judge(ctx, out, kind, obj, tag="", flavour=None):
    """the obligations on how the blocking call ended"""
    what, detail = kind
    if what == "raise" and detail is asyncio.CancelledError and flavour == "asyncio":
        # known finding F14: not fatal, so that it neither ends this shard nor stops the others
        ctx.observe(tag + "ended", out.kind)
        ctx.require(out.kind != "hang", tag + "the blocking run ends (it never keeps running)")
        if out.kind != "hang":
            ctx.require(out.kind == "raise", tag + "the blocking run ends by raising, never returns normally")
        return
    ctx.observe(tag + "ended", out.kind)
    ctx.observe(tag + "raised", type(out.exc).__name__ if out.exc is not None else None)
    if what == "raise" and detail is KeyboardInterrupt:
        ctx.require(out.kind != "hang", tag + "a KeyboardInterrupt ends the run")
        return
    ctx.require(out.kind != "hang", tag + "the blocking run ends (it never keeps running)", fatal=True)
    if out.kind == "hang":
        return
    ctx.require(out.kind == "raise", tag + "the blocking run ends by raising, never returns normally")
    if out.kind != "raise":
        return
    chain = rt.flatten(out.exc)
    if what == "return":
        ctx.require(isinstance(out.exc, RuntimeError), tag + "a non-None return value raises RuntimeError")
        orphans = [e for e in chain if isinstance(e, OrphanedReturn)]
        ctx.require(any(o.value is obj for o in orphans),
                    tag + "the cause is an orphaned-return error carrying the very returned value")
    elif issubclass(detail, Exception):
        ctx.require(isinstance(out.exc, RuntimeError), tag + "an Exception subclass raises RuntimeError")
        ctx.require(any(e is obj for e in chain), tag + "the cause (through exception groups) is the original exception")
        ctx.require(out.exc is not obj and any(e is obj for e in chain[1:]),
                    tag + "the original exception is the CAUSE of the RuntimeError raised, not that error itself")
    # BaseException subclasses: 'ends by raising' is all that is demanded


def _bystanders(ctx, w, fixed=None):
    """number and flavours of sleeping bystander payloads: symbolic choices, or pinned by the task"""
    beats = []
    flav = ["threading", "asyncio", "trio", "asyncio_stubborn"]
    if fixed is not None:
        return list(fixed), beats
    n = ctx.choice("bystanders", 3)
    return [flav[ctx.choice("bystander_flavour_%d" % i, 4)] for i in range(n)], beats


def meta_queued(ctx, flavour, bystanders=None):
    """MetaRunner.run() with the failing payload (and bystanders) queued before start"""
    body, kind, obj = _outcome(ctx)
    meta = MetaRunner()
    stop = threading.Event()
    w = rt.World()
    w.stop_flag = stop
    picked, beats = _bystanders(ctx, w, bystanders)
    for f in picked:
        meta.register_payload(w.bystander(f, beats), flavour=rt.FLAVOURS[f])
    meta.register_payload(rt.make_payload(flavour, body), flavour=rt.FLAVOURS[flavour])
    try:
        out = rt.run_meta(meta, bound=_bound(kind, flavour))
    finally:
        stop.set()
    ctx.reach()
    _judge(ctx, out, kind, obj, flavour=flavour)


def accept_scenario(ctx, flavour, how, via=None, bystanders=None):
    """ServiceRunner.accept() with the failing payload registered `how`:
    queued / outside (after start, from this thread) / inside (from a payload of flavour `via`) /
    service_before / service_after"""
    body, kind, obj = _outcome(ctx)
    w = rt.World()
    picked, beats = _bystanders(ctx, w, bystanders)
    failing = rt.make_payload(flavour, body, at_call=(how in ("queued", "outside") and kind[0] == "raise"
                                                      and ctx.flag("fails_when_called")))
    F = rt.FLAVOURS[flavour]
    svc = None

    def make_service():
        if flavour == "threading":
            @service(flavour=F)
            class Svc:
                def run(self):
                    return body()
        else:
            @service(flavour=F)
            class Svc:
                async def run(self):
                    return body()
        return Svc()

    try:
        for f in picked:
            w.runner.adopt(w.bystander(f, beats), flavour=rt.FLAVOURS[f])
        if how == "queued":
            w.runner.adopt(failing, flavour=F)
        elif how == "service_before":
            svc = make_service()
        elif how == "inside":
            V = rt.FLAVOURS[via]
            stop = w.stop_flag

            def submit():
                w.runner.adopt(failing, flavour=F)

            if via == "threading":
                def outer():
                    submit()
                    while not stop.is_set():
                        time.sleep(0.01)
            elif via == "asyncio":
                async def outer():
                    submit()
                    while not stop.is_set():
                        await asyncio.sleep(0.01)
            else:
                async def outer():
                    submit()
                    while not stop.is_set():
                        await trio.sleep(0.01)
            w.runner.adopt(outer, flavour=V)
        w.start()
        if how in ("outside", "service_after"):
            ok = w.wait_running()
            ctx.require(ok, "the runtime reports running")
            if how == "outside":
                w.runner.adopt(failing, flavour=F)
            else:
                svc = make_service()
        out = w.join(bound=_bound(kind, flavour))
    finally:
        w.cleanup()
    ctx.reach()
    _judge(ctx, out, kind, obj, flavour=flavour)
    del svc


def twice(ctx, flavour1, flavour2, api):
    """the same runtime object is run again after a failure: the second run fails-stops as well"""
    w = rt.World()
    runner = w.runner
    outs = []
    for i, flavour in enumerate((flavour1, flavour2)):
        body, kind, obj = _outcome_named(ctx, "_%d" % i)
        payload = rt.make_payload(flavour, body)
        if api == "meta":
            meta = runner._meta_runner
            meta.register_payload(payload, flavour=rt.FLAVOURS[flavour])
            out = rt.run_meta(meta)
        else:
            runner.adopt(payload, flavour=rt.FLAVOURS[flavour])
            w.start()
            out = w.join()
            w.cleanup()
        _judge(ctx, out, kind, obj, "run%d: " % i)
        if out.kind == "hang":
            break
    ctx.reach()


def _outcome_named(ctx, sfx):
    """a smaller catalogue for multi-run histories"""
    k = ctx.choice("outcome" + sfx, 4)
    if k == 0:
        v = ctx.num("value" + sfx, "int")
        return (lambda: v), ("return", "int"), v
    if k == 1:
        v = ctx.seq("length" + sfx, "tuple")
        return (lambda: v), ("return", "tuple"), v
    cls = [KeyError, UserError][k - 2]
    exc = cls(ctx.num("arg" + sfx, "int"))

    def body():
        raise exc

    return body, ("raise", cls), exc


def tasks(tier, seed):
    out = []
    flav = ("asyncio", "trio", "threading")
    wit = 2 if tier == "quick" else 1
    k = 0

    def by():
        nonlocal k
        k += 1
        if tier == "thorough" and k % 3 == 0:
            return None  # symbolic number and flavours
        return [[], [flav[k % 3]], [flav[k % 3], "asyncio_stubborn"]][k % 3]

    for f in flav:
        out.append(Task(MOD, "meta_queued", dict(flavour=f, bystanders=by()), model="R", weight=5, shards=4, witness_every=wit))
        for how in ("queued", "outside", "service_before", "service_after"):
            out.append(Task(MOD, "accept_scenario", dict(flavour=f, how=how, bystanders=by()), model="R", weight=6,
                            shards=4, witness_every=wit))
        for via in flav:
            out.append(Task(MOD, "accept_scenario", dict(flavour=f, how="inside", via=via, bystanders=by()), model="R",
                            weight=6, shards=4, witness_every=wit))
    for i, f1 in enumerate(flav):
        for j, f2 in enumerate(flav):
            if tier == "quick" and (i + j) % 3 != 0:
                continue
            out.append(Task(MOD, "twice", dict(flavour1=f1, flavour2=f2, api="accept" if (i + j) % 2 else "meta"),
                            model="R", weight=8, shards=4, witness_every=wit))
            if tier == "thorough":
                out.append(Task(MOD, "twice", dict(flavour1=f1, flavour2=f2, api="meta" if (i + j) % 2 else "accept"),
                                model="R", weight=8, shards=4, witness_every=wit))
    return out


def _asyncio_cancellederror(inputs, params):
    k = inputs.get("outcome")
    return (params.get("flavour") == "asyncio" and k is not None
            and EXCEPTIONS[int(k) - len(RETURN_FAMILIES)] is asyncio.CancelledError and int(k) >= len(RETURN_FAMILIES))


PREDICATES = {"asyncio_cancellederror": _asyncio_cancellederror}
