"""Translator validation for Engine S: every operator x operand kind x number model, with the inputs pinned
by equalities, must evaluate (under the solver's model) to exactly what CPython computes.

  ./verif selftest ops
"""
import itertools
import math
import operator
from fractions import Fraction

import z3

from . import symx
from .symx import INF, SFloat, SInt

INTS = [-7, -2, -1, 0, 1, 2, 3, 7]
FLOATS = [-2.5, -1.0, -0.25, 0.0, 0.25, 0.5, 1.0, 1.75, 3.0]
BIN = {
    "+": operator.add, "-": operator.sub, "*": operator.mul, "/": operator.truediv, "//": operator.floordiv,
    "%": operator.mod, "<": operator.lt, "<=": operator.le, ">": operator.gt, ">=": operator.ge,
    "==": operator.eq, "!=": operator.ne,
}
UN = {"neg": operator.neg, "abs": abs, "pos": operator.pos, "int": int, "float": float, "bool": bool}


def _run(model, fn, values, kinds):
    """evaluate fn on proxies pinned to `values` -> ('value', v, is_float) | ('raise', name) | ('unsupported', why)"""
    final = {}

    def harness(ctx):
        xs = []
        for i, (v, k) in enumerate(zip(values, kinds)):
            if isinstance(v, float) and math.isinf(v):
                xs.append(v)
                continue
            x = ctx.num("x%d" % i, k)
            ctx.assume(x == (Fraction(v) if k == "float" else v))
            xs.append(x)
        try:
            r = fn(*xs)
        except (ZeroDivisionError, OverflowError) as e:
            final["out"] = ("raise", type(e).__name__)
            return
        if isinstance(r, symx.SBool):
            r = bool(r)
        if symx.is_sym(r):
            _, m = ctx._check()
            final["out"] = ("value", ctx.eval_value(m, r), isinstance(r, SFloat))
        else:
            final["out"] = ("value", r, isinstance(r, float))

    res = symx.explore(harness, {}, model=model, witness_every=0)
    if res.engine_errors:
        return ("unsupported", res.engine_errors[0][:80])
    return final.get("out", ("unsupported", "no completed path"))


def _expect(fn, values):
    """CPython's result type and exceptions; the VALUE over exact rationals (the engine models floats as
    exact reals, so 1/3 is one third, not its nearest double)"""
    try:
        r = fn(*values)
    except (ZeroDivisionError, OverflowError) as e:
        return ("raise", type(e).__name__)
    if isinstance(r, float) and not isinstance(r, bool) and math.isfinite(r) \
            and all(not isinstance(v, float) or math.isfinite(v) for v in values):
        exact = fn(*[Fraction(v) for v in values])
        return ("value", Fraction(exact), True)
    return ("value", r, isinstance(r, float))


def _same(got, exp):
    if got[0] != exp[0]:
        return False
    if got[0] == "raise":
        return got[1] == exp[1]
    g, e = got[1], exp[1]
    if isinstance(e, bool) or isinstance(g, bool):
        return g == e and isinstance(g, bool) == isinstance(e, bool)
    if isinstance(e, float) and (math.isinf(e) or math.isnan(e)):
        return isinstance(g, float) and (g == e or (math.isnan(g) and math.isnan(e)))
    if got[2] != exp[2]:
        return False  # int vs float result type must agree with CPython
    return Fraction(g) == Fraction(e)


def main():
    checked = bad = skipped = 0
    problems = []
    for model in ("Z", "R", "G4"):
        kinds_sets = [("int", "int")] if model == "Z" else [("int", "int"), ("int", "float"), ("float", "int"), ("float", "float")]
        for ka, kb in kinds_sets:
            va = INTS if ka == "int" else FLOATS
            vb = INTS if kb == "int" else FLOATS
            for name, fn in BIN.items():
                for a, b in itertools.product(va[::2] if model != "R" else va, vb[::2] if model != "R" else vb):
                    exp = _expect(fn, (a, b))
                    if exp[0] == "value" and isinstance(exp[1], float) and model == "G4" and (Fraction(exp[1]) * 4).denominator != 1:
                        skipped += 1  # result leaves the 1/4 grid: the engine must refuse, checked below
                        got = _run(model, fn, (a, b), (ka, kb))
                        if got[0] != "unsupported":
                            bad += 1
                            problems.append((model, name, a, b, got, "expected Unsupported (off grid)"))
                        continue
                    got = _run(model, fn, (a, b), (ka, kb))
                    checked += 1
                    if got[0] == "unsupported":
                        if model == "G4" and name in ("/", "*") or model == "Z":
                            skipped += 1
                            continue
                    if not _same(got, exp):
                        bad += 1
                        problems.append((model, name, a, b, got, exp))
        # unary and conversions
        for k in (("int",) if model == "Z" else ("int", "float")):
            for name, fn in UN.items():
                if model == "Z" and name == "float":
                    continue
                ctor = {"int": SInt, "float": SFloat}.get(name)
                for v in (INTS if k == "int" else FLOATS):
                    exp = _expect(fn, (v,))
                    f = (lambda x, _c=ctor, _f=fn: _c(x)) if ctor else fn
                    got = _run(model, f, (v,), (k,))
                    checked += 1
                    if not _same(got, exp):
                        bad += 1
                        problems.append((model, name, v, None, got, exp))
    # non-finite operands: IEEE result must match CPython on a finite stand-in
    for name in ("+", "-", "<", "<=", ">", ">=", "==", "!="):
        for inf, v, k in itertools.product((INF, -INF), (-2.5, 0.0, 3.0, 2), ("float", "int")):
            if (k == "int") != isinstance(v, int):
                continue
            for order in (0, 1):
                vals = (v, inf) if order == 0 else (inf, v)
                kinds = (k, "float") if order == 0 else ("float", k)
                exp = _expect(BIN[name], vals)
                got = _run("R", BIN[name], vals, kinds)
                checked += 1
                if not _same(got, exp):
                    bad += 1
                    problems.append(("R", name, vals[0], vals[1], got, exp))
    print("operator self-test: %d combinations checked, %d skipped (engine refuses, as designed), %d mismatches"
          % (checked, skipped, bad))
    for p in problems[:20]:
        print("  MISMATCH", p)
    return 1 if bad else 0
