"""C04 - a >> chain builds exactly the nested pipeline, however grouped or curried (Engine S)."""
import trio

from cobald.controller.linear import LinearController
from cobald.controller.relative_supply import RelativeSupplyController
from cobald.controller.stepwise import Stepwise, UnboundStepwise
from cobald.controller.switch import DemandSwitch
from cobald.daemon import service
from cobald.decorator.buffer import Buffer
from cobald.decorator.logger import Logger
from cobald.decorator.standardiser import Standardiser
from cobald.interfaces import Controller, Partial, Pool, PoolDecorator

from ..core import Task
from .common import RecPool, same

PROPERTY = "C04"
MOD = __name__
FUNCTIONS = [
    "cobald.interfaces._partial:Partial.__init__",
    "cobald.interfaces._partial:Partial._check_signature",
    "cobald.interfaces._partial:Partial.__call__",
    "cobald.interfaces._partial:Partial.__construct__",
    "cobald.interfaces._partial:Partial.__rshift__",
    "cobald.interfaces._partial:PartialBind.__init__",
    "cobald.interfaces._partial:PartialBind.__rshift__",
    "cobald.interfaces._pool:Pool.s",
    "cobald.interfaces._controller:Controller.s",
    "cobald.interfaces._proxy:PoolDecorator.s",
    "cobald.controller.stepwise:UnboundStepwise.s",
    "cobald.daemon.runners.service:service",
]
MANIFEST = {
    "technique": "symbolic execution of Partial/PartialBind with solver-enumerated groupings, curry splits and argument profiles; argument values are z3 integers tracked by identity",
    "text": "Bounded symbolic model checking of the >> algebra: chain length n <= 3 (thorough 4), every "
            "parenthesisation (Catalan), three tail forms, per element the signature family (plain, defaulted, "
            "keyword-only, *args, **kwargs, @service-decorated), the argument profile and its split over curry "
            "calls are symbolic choices; all argument values are symbolic integers. On every path the global "
            "construction log is compared with hand-nested construction (each element once, last to first, "
            "target = next element, arguments by identity). Eager rejection is checked per element against an "
            "independent hand-written model of Python call binding, for every profile x split x signature, "
            "including the shipped controllers and decorators.",
    "note": "argument names from a small alphabet {a,b,k,zz,q,target}; <= 3 positionals; <= 2 curry calls per element",
    "design_ref": "DESIGN.md §3 C04",
}
STUBS = []
ASSUMPTIONS = ["constructors are ordinary python callables (binding per the language reference)"]
OUTSIDE = ["chains longer than 4", "positional-only parameters", "more than 2 curry calls per element"]

LOG = []


def BOUNDS(tier):
    return {"chain_length": "1..3" if tier == "quick" else "1..4", "curry_calls": "0..2 per element",
            "positionals": "0..3", "keyword_alphabet": ["a", "b", "k", "zz", "q", "target"]}


def _log(self, target, args, kwargs):
    LOG.append((self, target, args, kwargs))


class S0(Controller):
    def __init__(self, target):
        super().__init__(target)
        _log(self, target, (), {})


class S1(PoolDecorator):
    def __init__(self, target, a, b=0):
        super().__init__(target)
        _log(self, target, (a, b), {})


class S2(Controller):
    def __init__(self, target, a, *, k, zz=1):
        super().__init__(target)
        _log(self, target, (a,), {"k": k, "zz": zz})


class S3(PoolDecorator):
    def __init__(self, target, *args):
        super().__init__(target)
        _log(self, target, args, {})


class S4(Controller):
    def __init__(self, target, a=0, **kwargs):
        super().__init__(target)
        _log(self, target, (a,), kwargs)


@service(flavour=trio)
class S5(Controller):
    def __init__(self, target, a, b=0, *, k=None):
        super().__init__(target)
        _log(self, target, (a, b), {"k": k})

    async def run(self):
        pass


class S6(S5):
    """subclass of a @service class with a WIDER constructor: its own signature counts, not the decorated base's"""

    def __init__(self, target, a, b=0, c=0, *, k=None, zz=1):
        super().__init__(target, a, b, k=k)
        LOG[-1] = (self, target, (a, b, c), {"k": k, "zz": zz})


class D0(PoolDecorator):
    def __init__(self, target):
        super().__init__(target)
        _log(self, target, (), {})


class D2(PoolDecorator):
    def __init__(self, target, a, *, k, zz=1):
        super().__init__(target)
        _log(self, target, (a,), {"k": k, "zz": zz})


class D4(PoolDecorator):
    def __init__(self, target, a=0, **kwargs):
        super().__init__(target)
        _log(self, target, (a,), kwargs)


@service(flavour=trio)
class D5(PoolDecorator):
    def __init__(self, target, a, b=0, *, k=None):
        super().__init__(target)
        _log(self, target, (a, b), {"k": k})

    async def run(self):
        pass


class D6(D5):
    """subclass of a @service class with a NARROWER constructor"""

    def __init__(self, target, a):
        super().__init__(target, a)
        LOG[-1] = (self, target, (a,), {})


class FalsyPool(RecPool):
    """an empty container-like pool: falsy, but a pool all the same"""

    def __init__(self):
        super().__init__()
        _log(self, None, (), {})

    def __len__(self):
        return 0


class P0(RecPool):
    def __init__(self):
        super().__init__()
        _log(self, None, (), {})


class P1(RecPool):
    def __init__(self, x, y=0, *, k=None):
        super().__init__()
        _log(self, None, (x, y), {"k": k})


class P2(RecPool):
    def __init__(self, *args, **kwargs):
        super().__init__()
        _log(self, None, args, kwargs)


# independent description of each constructor (NOT derived with inspect): parameters after target
SIGS = {
    "S0": (S0, dict(pos=[], required=[], kwonly=[], req_kw=[], varargs=False, varkw=False)),
    "S1": (S1, dict(pos=["a", "b"], required=["a"], kwonly=[], req_kw=[], varargs=False, varkw=False)),
    "S2": (S2, dict(pos=["a"], required=["a"], kwonly=["k", "zz"], req_kw=["k"], varargs=False, varkw=False)),
    "S3": (S3, dict(pos=[], required=[], kwonly=[], req_kw=[], varargs=True, varkw=False)),
    "S4": (S4, dict(pos=["a"], required=[], kwonly=[], req_kw=[], varargs=False, varkw=True)),
    "S5": (S5, dict(pos=["a", "b"], required=["a"], kwonly=["k"], req_kw=[], varargs=False, varkw=False)),
    "S6": (S6, dict(pos=["a", "b", "c"], required=["a"], kwonly=["k", "zz"], req_kw=[], varargs=False, varkw=False)),
    "D0": (D0, dict(pos=[], required=[], kwonly=[], req_kw=[], varargs=False, varkw=False)),
    "D6": (D6, dict(pos=["a"], required=["a"], kwonly=[], req_kw=[], varargs=False, varkw=False)),
    "D2": (D2, dict(pos=["a"], required=["a"], kwonly=["k", "zz"], req_kw=["k"], varargs=False, varkw=False)),
    "D4": (D4, dict(pos=["a"], required=[], kwonly=[], req_kw=[], varargs=False, varkw=True)),
    "D5": (D5, dict(pos=["a", "b"], required=["a"], kwonly=["k"], req_kw=[], varargs=False, varkw=False)),
    "P0": (P0, dict(pos=[], required=[], kwonly=[], req_kw=[], varargs=False, varkw=False)),
    "P1": (P1, dict(pos=["x", "y"], required=["x"], kwonly=["k"], req_kw=[], varargs=False, varkw=False)),
    "P2": (P2, dict(pos=[], required=[], kwonly=[], req_kw=[], varargs=True, varkw=True)),
}
SHIPPED = {
    "LinearController": (LinearController, dict(pos=["low_utilisation", "high_allocation", "rate", "interval"],
                                                required=[], kwonly=[], req_kw=[], varargs=False, varkw=False)),
    "RelativeSupplyController": (RelativeSupplyController, dict(
        pos=["low_utilisation", "high_allocation", "low_scale", "high_scale", "interval"], required=[],
        kwonly=[], req_kw=[], varargs=False, varkw=False)),
    "Stepwise": (Stepwise, dict(pos=["base"], required=["base"], kwonly=["interval"], req_kw=[], varargs=True, varkw=False)),
    "DemandSwitch": (DemandSwitch, dict(pos=["default"], required=["default"], kwonly=["interval"], req_kw=[], varargs=True, varkw=False)),
    "Buffer": (Buffer, dict(pos=["window"], required=[], kwonly=[], req_kw=[], varargs=False, varkw=False)),
    "Standardiser": (Standardiser, dict(pos=["minimum", "maximum", "granularity", "backlog", "surplus"], required=[],
                                        kwonly=[], req_kw=[], varargs=False, varkw=False)),
    "Logger": (Logger, dict(pos=["name", "message", "level"], required=[], kwonly=[], req_kw=[], varargs=False, varkw=False)),
}


def can_bind(sig, m, kws, leaf=False):
    """can m positionals and keyword names kws still bind once the target is supplied?"""
    if "target" in kws and not leaf:
        return False
    if m > len(sig["pos"]) and not sig["varargs"]:
        return False
    consumed = sig["pos"][:m]
    for k in kws:
        if k in consumed:
            return False
        if k in sig["pos"] or k in sig["kwonly"]:
            continue
        if sig["varkw"]:
            continue
        return False
    return True


def complete(sig, m, kws):
    given = set(sig["pos"][:m]) | set(kws)
    return all(r in given for r in sig["required"]) and all(r in given for r in sig["req_kw"])


# argument profiles: (number of positionals, keyword names)
PROFILES = [
    (0, ()), (1, ()), (2, ()), (3, ()), (0, ("a",)), (1, ("a",)), (1, ("b",)), (1, ("k",)),
    (1, ("k", "zz")), (0, ("q",)), (0, ("target",)), (2, ("k",)), (0, ("a", "k")),
]
# split of a profile over curry calls: list of (positional slice, keyword subset selector)
SPLITS = ["single", "empty_then_all", "pos_then_rest", "kw_then_pos", "dup_kw"]


def _calls(split, pos, kw):
    """-> list of (args, kwargs) for .s(...) followed by further calls"""
    items = list(kw.items())
    if split == "single":
        return [(pos, dict(items))]
    if split == "empty_then_all":
        return [((), {}), (pos, dict(items))]
    if split == "pos_then_rest":
        return [(pos[:1], {}), (pos[1:], dict(items))]
    if split == "kw_then_pos":
        return [((), dict(items)), (pos, {})]
    if split == "dup_kw":  # the same keyword supplied twice over two calls
        return [(pos, dict(items)), ((), dict(items[:1]))]
    raise ValueError(split)


def eager(ctx, family):
    """one element: every signature x profile x split; TypeError exactly when the model says so"""
    table = SIGS if family == "harness" else SHIPPED
    names = sorted(table)
    name = names[ctx.choice("sig", len(names))]
    cls, sig = table[name]
    leaf = name.startswith("P") and family == "harness"
    profiles = PROFILES if family == "harness" else _shipped_profiles(sig)
    m, kwnames = profiles[ctx.choice("profile", len(profiles))]
    split = SPLITS[ctx.choice("split", len(SPLITS))]
    poolarg = ctx.flag("pool_as_first_positional") if m >= 1 else False
    pos = tuple(ctx.num("p%d" % i, "int") for i in range(m))
    if poolarg:
        pos = (RecPool(),) + pos[1:]
    kw = {k: ctx.num("kw_" + k, "int") for k in kwnames}
    calls = _calls(split, pos, kw)
    cum_m, cum_k = 0, []
    partial = None
    ctx.reach()
    for j, (a, k) in enumerate(calls):
        dup = any(x in cum_k for x in k)
        cum_m += len(a)
        cum_k = cum_k + [x for x in k if x not in cum_k]
        first_is_pool = poolarg and cum_m >= 1
        ok = (not dup) and can_bind(sig, cum_m, cum_k, leaf) and not first_is_pool and "target" not in cum_k
        try:
            partial = cls.s(*a, **k) if partial is None else partial(*a, **k)
            raised = False
        except TypeError:
            raised = True
        ctx.observe("call%d_raised" % j, raised)
        if raised:
            ctx.require(not ok, "arguments that can bind are never rejected")
            return
        ctx.require(ok, "arguments that can never bind are rejected with TypeError when they are supplied")
        if not ok:
            return
    # everything supplied can bind: binding the target must succeed iff nothing required is missing
    if family != "harness":
        return
    del LOG[:]
    try:
        obj = partial.__construct__() if leaf else partial >> RecPool()
        built = True
    except TypeError:
        built = False
    ctx.require(built == complete(sig, cum_m, cum_k), "binding succeeds exactly when all required arguments were supplied")
    if built:
        ctx.require(isinstance(obj, cls) and len(LOG) == 1, "binding constructs the element exactly once")


def _shipped_profiles(sig):
    names = sig["pos"] + sig["kwonly"]
    out = [(0, ()), (len(sig["pos"]), ()), (len(sig["pos"]) + 1, ()), (0, ("foo",)), (0, ("target",)), (1, (sig["pos"][0],))]
    out += [(0, (n,)) for n in names[:2]]
    out += [(0, ("intervall",)), (0, tuple(names[-1:]))]
    return out


# -- chains ---------------------------------------------------------------------------------------
VALID = {  # per signature: two valid, complete argument profiles (positionals, keywords)
    "S0": [(0, ()), (0, ())],
    "S1": [(1, ()), (1, ("b",))],
    "S2": [(1, ("k",)), (0, ("a", "k", "zz"))],
    "S3": [(0, ()), (2, ())],
    "S4": [(0, ()), (1, ("q", "zz"))],
    "S5": [(1, ()), (2, ("k",))],
    "S6": [(3, ()), (1, ("zz",))],
    "D0": [(0, ()), (0, ())],
    "D6": [(1, ()), (0, ("a",))],
    "D2": [(1, ("k",)), (0, ("a", "k", "zz"))],
    "D4": [(0, ()), (1, ("q", "zz"))],
    "D5": [(1, ()), (2, ("k",))],
    "P0": [(0, ()), (0, ())],
    "P1": [(1, ()), (2, ("k",))],
    "P2": [(0, ()), (2, ("q",))],
}
HEADS = ["S0", "S1", "S2", "S3", "S4", "S5"]  # the head may be a controller or a decorator
DECORATORS = ["D0", "S1", "D2", "S3", "D4", "D5"]  # everything after the head is a pool decorator
POOLS = ["P0", "P1", "P2"]


def _trees(lo, hi):
    """all binary trees over leaves lo..hi-1"""
    if hi - lo == 1:
        return [lo]
    out = []
    for mid in range(lo + 1, hi):
        for left in _trees(lo, mid):
            for right in _trees(mid, hi):
                out.append((left, right))
    return out


def _eval(tree, leaves):
    if isinstance(tree, int):
        return leaves[tree]
    return _eval(tree[0], leaves) >> _eval(tree[1], leaves)


def _make_template(ctx, name, idx, tag):
    cls, sig = SIGS[name]
    m, kwnames = VALID[name][ctx.choice("profile_%s" % tag, 2)]
    pos = tuple(ctx.num("%s_p%d" % (tag, i), "int") for i in range(m))
    kw = {k: ctx.num("%s_kw_%s" % (tag, k), "int") for k in kwnames}
    split = ctx.choice("split_%s" % tag, 2)
    calls = _calls(["single", "pos_then_rest" if idx % 2 else "kw_then_pos"][split], pos, kw)
    t = None
    for a, k in calls:
        t = cls.s(*a, **k) if t is None else t(*a, **k)
    return t, cls, pos, kw


def chain(ctx, n, tree_idx, tail, offset=None, anywhere=False):
    """n elements + a pool; grouping = tree_idx-th binary tree; tail in instance/template/curried.
    anywhere=True: controller classes may stand behind the head as well (the statement says 'any chain of
    controller/decorator templates'; every grouping must still equal hand nesting)"""
    offset = ctx.choice("offset", len(HEADS), fixed=offset)
    elems = []
    for i in range(n):
        name = (HEADS if (i == 0 or anywhere) else DECORATORS)[(i + offset) % len(HEADS)]
        elems.append(_make_template(ctx, name, i, "e%d" % i))
    pname = POOLS[ctx.choice("pool", len(POOLS))]
    pcls, psig = SIGS[pname]
    if tail == "instance" and pname == "P0" and ctx.flag("falsy_pool"):
        pcls = FalsyPool
        ppos, pkw = (), {}
        tail_obj = FalsyPool()
    elif tail == "instance":
        m, kwnames = VALID[pname][ctx.choice("profile_pool", 2)]
        ppos = tuple(ctx.num("pool_p%d" % i, "int") for i in range(m))
        pkw = {k: ctx.num("pool_kw_%s" % k, "int") for k in kwnames}
        tail_obj = pcls(*ppos, **pkw)
    else:
        t, _, ppos, pkw = _make_template(ctx, pname, n + (tail == "curried"), "pool")
        if tail == "curried":
            t = t()
        tail_obj = t
    trees = _trees(0, n + 1)
    tree = trees[tree_idx]
    del LOG[:]
    result = _eval(tree, [e[0] for e in elems] + [tail_obj])
    ctx.reach()
    got = list(LOG)
    # hand-nested reference
    expect = []  # (cls, pos, kw) last to first
    if tail != "instance":
        expect.append((pcls, ppos, pkw))
    for t, cls, pos, kw in reversed(elems):
        expect.append((cls, pos, kw))
    ctx.observe("constructed", [type(x[0]).__name__ for x in got])
    ctx.require([type(x[0]) for x in got] == [c for c, _, _ in expect],
                "each element is constructed exactly once, last to first")
    if len(got) != len(expect):
        return
    prev = tail_obj if tail == "instance" else None
    for (obj, target, args, kwargs), (cls, pos, kw) in zip(got, expect):
        if issubclass(cls, RecPool):
            ctx.require(target is None, "the pool template is constructed without a target")
            prev = obj
            continue
        else:
            ctx.require(target is prev and obj.target is prev, "each element receives the next element as its target")
        ctx.require(len(args) >= len(pos) and all(same(a, b) for a, b in zip(args, pos)),
                    "positional arguments arrive in the order given")
        ctx.require(all(k in kwargs and same(kwargs[k], v) for k, v in kw.items())
                    or all(same(dict(zip(SIGS[cls.__name__][1]["pos"], args)).get(k, kwargs.get(k)), v) for k, v in kw.items()),
                    "keyword arguments arrive unchanged")
        prev = obj
    ctx.require(result is got[-1][0] and isinstance(result, elems[0][1]), "the head element is returned")


def reuse(ctx, n, j):
    """an unfinished chain / a template is a value: continuing it twice gives two independent results"""
    offset = ctx.choice("offset", len(HEADS))
    elems = []
    for i in range(n):
        name = (HEADS if i == 0 else DECORATORS)[(i + offset) % len(HEADS)]
        elems.append(_make_template(ctx, name, i, "e%d" % i))
    prefix = elems[0][0]
    for t, *_ in elems[1:j]:
        prefix = prefix >> t
    order = ctx.choice("order", 2)  # which continuation comes first

    def long_way():
        r = prefix
        for t, *_ in elems[j:]:
            r = r >> t
        return r >> P0()

    def short_way():
        return prefix >> P0()

    runs = [("long", long_way, n), ("short", short_way, j)]
    if order:
        runs.reverse()
    runs.append(runs[0])  # and the first one again
    ctx.reach()
    for tag, fn, length in runs:
        del LOG[:]
        result = fn()
        got = [x for x in LOG if not isinstance(x[0], P0)]
        ctx.observe(tag, [type(x[0]).__name__ for x in got])
        ctx.require([type(x[0]) for x in got] == [e[1] for e in reversed(elems[:length])],
                    "continuing a stored template/unfinished chain builds exactly the elements written (%s)" % tag)
        if len(got) != length:
            continue
        for (obj, target, args, kwargs), (t, cls, pos, kw) in zip(got, reversed(elems[:length])):
            ctx.require(all(same(a, b) for a, b in zip(args, pos)), "positional arguments arrive in the order given")
        ctx.require(result is got[-1][0], "the head element is returned")


def curry_reuse(ctx):
    """currying never changes the template it was applied to"""
    a, b1, b2 = ctx.num("a", "int"), ctx.num("b1", "int"), ctx.num("b2", "int")
    base = S1.s(a)
    t1 = base(b=b1)
    t2 = base(b=b2)
    pool = RecPool()
    del LOG[:]
    x1, x2, x0 = t1 >> pool, t2 >> pool, base >> pool
    ctx.reach()
    got = list(LOG)
    ctx.require(len(got) == 3, "three independent constructions")
    if len(got) == 3:
        ctx.require(same(got[0][2][0], a) and same(got[0][2][1], b1), "first curry keeps its own keyword")
        ctx.require(same(got[1][2][0], a) and same(got[1][2][1], b2), "second curry keeps its own keyword")
        ctx.require(same(got[2][2][0], a) and got[2][2][1] == 0 and not (symx_is(got[2][2][1])),
                    "the base template is unchanged by currying")


def symx_is(x):
    from ..symx import is_sym
    return is_sym(x)


class DerivedS1(S1):
    """a subclass of an element class: its template builds the subclass"""

    def __init__(self, target, a, b=0):
        super().__init__(target, a, b)


class DerivedS4(S4):
    """a subclass of a controller class"""


def subclass_templates(ctx):
    """templates of a class and of its subclass are independent, whichever is asked for first"""
    order = ctx.choice("first", 2)
    a = ctx.num("a", "int")
    base, derived = [(S1, DerivedS1), (S4, DerivedS4)][ctx.choice("family", 2)]  # a decorator and a controller family
    names = [base, derived] if order == 0 else [derived, base]
    bare = [c.s() for c in names]  # bare templates first (what a cache would remember)
    pool = RecPool()
    ctx.reach()
    for cls, t in zip(names, bare):
        del LOG[:]
        obj = t(a) >> pool
        ctx.require(type(obj) is cls and len(LOG) == 1 and same(LOG[0][2][0], a),
                    "the template of a class builds that very class")
    del LOG[:]
    obj = derived.s(a) >> pool
    ctx.require(type(obj) is derived, "arguments that can bind to the subclass are accepted")


def stepwise_template(ctx):
    """UnboundStepwise.s is a leaf-marked template of a controller: binding needs a pool"""
    def base(pool, interval):
        return None
    ub = UnboundStepwise(base)
    iv = ctx.num("interval", "int")
    t = ub.s(interval=iv)
    p = RecPool()
    c = t >> p
    ctx.reach()
    ctx.require(isinstance(c, Stepwise) and c.target is p and same(c.interval, iv),
                "stepwise template binds to the pool with its arguments")


def tasks(tier, seed):
    out = [Task(MOD, "eager", dict(family="harness"), model="Z", weight=50, shards=8),
           Task(MOD, "eager", dict(family="shipped"), model="Z", weight=30, shards=4),
           Task(MOD, "stepwise_template", model="Z"), Task(MOD, "curry_reuse", model="Z"),
           Task(MOD, "subclass_templates", model="Z")]
    for n in range(2, (4 if tier == "quick" else 5)):
        for j in range(1, n):
            out.append(Task(MOD, "reuse", dict(n=n, j=j), model="Z", weight=4 ** n, witness_every=1 if n < 4 else 7))
    def both_unfinished(tree, pool_leaf):
        """does some >> join two unfinished chains (neither side holds the pool)?"""
        def leaves(t):
            return [t] if isinstance(t, int) else leaves(t[0]) + leaves(t[1])
        if isinstance(tree, int):
            return False
        l, r = tree
        here = not isinstance(l, int) and not isinstance(r, int) and pool_leaf not in leaves(tree)
        return here or both_unfinished(l, pool_leaf) or both_unfinished(r, pool_leaf)

    nmax = 3 if tier == "quick" else 4
    if tier == "quick":
        # the smallest chains in which one >> joins two unfinished chains need four elements
        for ti, tree in enumerate(_trees(0, 5)):
            if both_unfinished(tree, 4):
                for k, tail in enumerate(("instance", "template", "curried")):
                    out.append(Task(MOD, "chain", dict(n=4, tree_idx=ti, tail=tail, offset=(ti + k) % 6), model="Z",
                                    weight=300, witness_every=11, name="chain_joined_unfinished"))
    for n in (2, 3):
        for ti in range(len(_trees(0, n + 1))):
            for k, tail in enumerate(("instance", "template", "curried")):
                out.append(Task(MOD, "chain", dict(n=n, tree_idx=ti, tail=tail, offset=(ti + 2 * k) % 6 if tier == "quick" else None,
                                                   anywhere=True), model="Z", weight=4 ** n, witness_every=3,
                                name="chain_controllers_anywhere"))
    for n in range(1, nmax + 1):
        ntrees = len(_trees(0, n + 1))
        for ti in range(ntrees):
            for k, tail in enumerate(("instance", "template", "curried")):
                if n <= 2 or (tier == "thorough" and n == 3):
                    offsets = [None]  # symbolic: all six rotations of the signature family
                else:
                    offsets = [(ti + k) % 6]
                for off in offsets:
                    out.append(Task(MOD, "chain", dict(n=n, tree_idx=ti, tail=tail, offset=off), model="Z",
                                    weight=4 ** n * (6 if off is None else 1),
                                    witness_every=1 if n < 3 else (3 if n == 3 else 11)))
    return out


PREDICATES = {}
