"""C18 - YAML loading never instantiates anything but registered plugins (Engine Z: z3 strings).

The tag is an unbounded z3 String, the node kind a z3 Int; the constructor dispatch of every loader
class that the real ``load()`` instantiates is transcribed from its LIVE tables exactly as
``BaseConstructor.construct_object`` reads them.  ``unsat`` of "some tag reaches a constructor that
is neither a safe standard one, a registered plugin under its own tag, nor the rejecting
construct_undefined" holds for every tag string.
"""
import importlib
import json
import os
import sys
import tempfile
import time

import yaml
import yaml.constructor as yc
import yaml.reader
import z3

import cobald.daemon.core.config as config_mod
from entrypoints import get_group_all

from .. import core

PROPERTY = "C18"
MOD = __name__
PREDICATES = {"merge_key_value": lambda inputs, params: inputs.get("position") == "value of a merge key"}
FUNCTIONS = [
    "cobald.daemon.core.config:COBalDLoader",
    "cobald.daemon.core.config:add_constructor_plugins",
    "cobald.daemon.core.config:load",
    "cobald.daemon.config.yaml:load_configuration",
    "cobald.daemon.config.yaml:yaml_constructor",
]
MANIFEST = {
    "engine": "z3str",
    "technique": "z3 string-theory query over the live PyYAML constructor tables of the loader class the real load() instantiates (tag unbounded)",
    "text": "Solver-decided for EVERY tag string and node kind: the constructor dispatch of each loader class that "
            "the real load() instantiates (observed by a spy on yaml.reader.Reader.__init__) is encoded from the "
            "class's live yaml_constructors / yaml_multi_constructors as construct_object reads them; z3 proves "
            "(unsat) that no tag reaches anything but a SafeConstructor standard constructor under its own tag, a "
            "registered plugin closure under '!'+entry point name, or construct_undefined (which raises); that "
            "every python/* key or prefix known to PyYAML, with any suffix, reaches construct_undefined; and that "
            "every unregistered '!...' tag does. The transcription is validated against the real construct_object "
            "on keys, prefixes and solver-generated tags. A sat answer is replayed through the real load() with "
            "canary targets in four document positions. Nineteen documents with a canary tag at one position at a time (document root ... merge-key value) go through the real load(); the dispatch assumption is checked with a spy loader.",
    "note": "trusted: PyYAML funnels every node at every depth through construct_object; SafeConstructor's own "
            "methods build only plain data; z3's string solver",
    "design_ref": "DESIGN.md §3 C18",
    "category": "model_checking",
}
GROUP = "cobald.config.yaml_constructors"
KINDS = ("scalar", "sequence", "mapping")

BENIGN = """
pipeline:
  - !LinearController
    low_utilisation: 0.9
    high_allocation: 1.1
  - __type__: vf.harness.c18_canary.DummyPool
__config_test:
  x: [1, 2.5, true, null, "text", 2001-01-01]
"""


class Spy:
    """record every loader class instantiated while the real load() runs"""

    def __init__(self):
        self.classes = []

    def __enter__(self):
        self.orig = yaml.reader.Reader.__init__
        spy = self

        def init(reader, stream):
            spy.classes.append(type(reader))
            return spy.orig(reader, stream)

        yaml.reader.Reader.__init__ = init
        return self

    def __exit__(self, *exc):
        yaml.reader.Reader.__init__ = self.orig
        return False


SUFFIXES = (".yaml", ".yml")  # every extension the real load() reads as YAML
SUFFIX = [".yaml"]  # the one documents are currently written with


def _load_doc(text):
    """run the real load() on a document; -> (exception or None, result)"""
    fd, path = tempfile.mkstemp(suffix=SUFFIX[0], prefix="verif_c18_")
    try:
        with os.fdopen(fd, "w") as f:
            f.write(text)
        try:
            with config_mod.load(path) as c:
                return None, c
        except BaseException as e:  # noqa: B036
            return e, None
    finally:
        os.unlink(path)


CLASS_SUFFIX = {}


def capture_loader_classes():
    """the loader classes the real load() instantiates, for every file extension it reads as YAML"""
    classes, first_err = [], None
    for sfx in SUFFIXES:
        SUFFIX[0] = sfx
        with Spy() as spy:
            err, _ = _load_doc(BENIGN)
        if err is not None and first_err is None:
            first_err = err
        for c in spy.classes:
            CLASS_SUFFIX.setdefault(c, sfx)
            classes.append(c)
    SUFFIX[0] = SUFFIXES[0]
    return classes, first_err


# ---------------------------------------------------------------------------------------------
def entries(cls):
    """live dispatch entries in lookup order: (id, table, key, function)"""
    out = []
    cons = cls.yaml_constructors
    multi = cls.yaml_multi_constructors
    for key, fn in cons.items():
        if key is not None:
            out.append(("exact", key, fn))
    for key, fn in multi.items():
        if key is not None:
            out.append(("prefix", key, fn))
    if None in multi:
        out.append(("multi_none", None, multi[None]))
    elif None in cons:
        out.append(("cons_none", None, cons[None]))
    else:
        for k in KINDS:
            out.append(("default_" + k, None, getattr(cls, "construct_" + k)))
    return [(i, t, k, f) for i, (t, k, f) in enumerate(out)]


def dispatch_term(ents, tag, kind):
    """z3 Int term: id of the entry construct_object selects for (tag, kind)"""
    tail = None
    for i, t, k, f in ents:
        if t in ("multi_none", "cons_none"):
            tail = z3.IntVal(i)
    if tail is None:
        ids = {t: i for i, t, k, f in ents if t.startswith("default_")}
        tail = z3.If(kind == 0, ids["default_scalar"], z3.If(kind == 1, ids["default_sequence"], ids["default_mapping"]))
    expr = tail
    for i, t, k, f in reversed([e for e in ents if e[1] == "prefix"]):
        expr = z3.If(z3.PrefixOf(z3.StringVal(k), tag), z3.IntVal(i), expr)
    for i, t, k, f in reversed([e for e in ents if e[1] == "exact"]):
        expr = z3.If(tag == z3.StringVal(k), z3.IntVal(i), expr)
    return expr


def dispatch_mirror(ents, tag, kind):
    """the same transcription in plain python (for validation against the real construct_object)"""
    for i, t, k, f in ents:
        if t == "exact" and tag == k:
            return i
    for i, t, k, f in ents:
        if t == "prefix" and tag.startswith(k):
            return i
    for i, t, k, f in ents:
        if t in ("multi_none", "cons_none"):
            return i
    return next(i for i, t, k, f in ents if t == "default_" + KINDS[kind])


def real_dispatch(cls, ents, tag, kind):
    """what the real construct_object selects: run it on a marker copy of the class"""
    fn_id = {}
    marker_cons, marker_multi = {}, {}
    for i, t, k, f in ents:
        if t == "exact":
            marker_cons[k] = (lambda self, node, _i=i: _i)
        elif t == "prefix":
            marker_multi[k] = (lambda self, suffix, node, _i=i: _i)
        elif t == "multi_none":
            marker_multi[None] = (lambda self, suffix, node, _i=i: _i)
        elif t == "cons_none":
            marker_cons[None] = (lambda self, node, _i=i: _i)
    ns = {"yaml_constructors": marker_cons, "yaml_multi_constructors": marker_multi}
    for i, t, k, f in ents:
        if t.startswith("default_"):
            ns["construct_" + t[len("default_"):]] = (lambda self, node, deep=False, _i=i: _i)
    # preserve the key order of the live tables (prefix order matters)
    marker_cons_o = {k: marker_cons[k] for k in cls.yaml_constructors if k in marker_cons}
    marker_multi_o = {k: marker_multi[k] for k in cls.yaml_multi_constructors if k in marker_multi}
    ns["yaml_constructors"], ns["yaml_multi_constructors"] = marker_cons_o, marker_multi_o
    M = type("Marker", (yc.BaseConstructor,), ns)
    node = [yaml.ScalarNode(tag, "v"), yaml.SequenceNode(tag, []), yaml.MappingNode(tag, [])][kind]
    return M().construct_object(node)


# ---------------------------------------------------------------------------------------------
def plugin_tags():
    """'!' + name -> set of acceptable factories for every installed entry point"""
    out = {}
    for ep in get_group_all(GROUP):
        obj = ep.load()
        out["!" + ep.name] = [getattr(obj, "s", None), obj]
    return out


def classify(t, key, fn, plugins):
    safe_cons = yc.SafeConstructor.yaml_constructors
    if t == "exact" and key in safe_cons and fn is safe_cons[key] and key is not None:
        return "safe"
    if t == "cons_none" and fn is yc.SafeConstructor.construct_undefined:
        return "reject"
    if t == "exact" and key in plugins and getattr(fn, "__module__", "") == "cobald.daemon.config.yaml" \
            and getattr(fn, "__qualname__", "") == "yaml_constructor.<locals>.factory_constructor":
        cells = [c.cell_contents for c in (fn.__closure__ or ())]
        if any(any(c is f or c == f for f in plugins[key] if f is not None) for c in cells):
            return "plugin"
    return "unsafe"


def python_tag_patterns():
    """every python/* key and prefix PyYAML itself knows, from its own constructor tables"""
    keys, prefixes = set(), set()
    for cls in (yc.FullConstructor, yc.UnsafeConstructor, yc.Constructor):
        for k in cls.yaml_constructors:
            if k and "python/" in k:
                keys.add(k)
        for k in cls.yaml_multi_constructors:
            if k and "python/" in k:
                prefixes.add(k)
    return sorted(keys), sorted(prefixes)


def solve(s, *assertions, timeout=30000):
    s.push()
    s.set("timeout", timeout)
    for a in assertions:
        s.add(a)
    t0 = time.time()
    r = s.check()
    m = s.model() if r == z3.sat else None
    s.pop()
    return str(r), m, time.time() - t0


def analyse(cls, stats, samples):
    """-> list of (description, witness tag, kind) for every sat query"""
    plugins = plugin_tags()
    ents = entries(cls)
    klass = {i: classify(t, k, f, plugins) for i, t, k, f in ents}
    tag = z3.String("tag")
    kind = z3.Int("kind")
    s = z3.Solver()
    s.add(kind >= 0, kind <= 2)
    d = dispatch_term(ents, tag, kind)
    found = []

    def q(desc, *assertions, wit_tag=tag):
        r, m, dt = solve(s, *assertions)
        stats["queries"] += 1
        stats["solver_s"] += dt
        if r == "unsat":
            stats["unsat"] += 1
        elif r == "sat":
            w = m.eval(wit_tag, model_completion=True).as_string()
            kd = m.eval(kind, model_completion=True).as_long()
            found.append((desc, w, kd))
        else:
            stats["unknown"].append(desc)
        if len(samples) < 6:
            samples.append({"loader": cls.__name__, "query": desc, "result": r, "solver_s": round(dt, 4)})

    # Q1: any tag reaching an entry that is neither safe, plugin-under-own-tag nor rejecting
    for i, t, k, f in ents:
        if klass[i] == "unsafe":
            q("tag reaches %s entry %r -> %s" % (t, k, getattr(f, "__qualname__", f)), d == i)
    stats["entries"] += len(ents)
    stats["unsafe_entries"] += sum(1 for v in klass.values() if v == "unsafe")
    # Q1b: the complement in one query: whatever is selected is allowed
    allowed = [i for i in klass if klass[i] != "unsafe"]
    q("some tag is dispatched outside the allowed set", z3.And(*[d != i for i in allowed]) if allowed else z3.BoolVal(True))
    reject = [i for i in klass if klass[i] == "reject"]
    rej = z3.Or(*[d == i for i in reject]) if reject else z3.BoolVal(False)
    # Q2: python/* keys and prefixes (any suffix) are rejected
    keys, prefixes = python_tag_patterns()
    suffix = z3.String("suffix")
    for k in keys:
        q("python tag %r is not rejected" % k, tag == z3.StringVal(k), z3.Not(rej))
    for p in prefixes:
        q("python tag prefix %r + suffix is not rejected" % p, tag == z3.Concat(z3.StringVal(p), suffix), z3.Not(rej))
    # the '!!python/...' shorthand and any %TAG handle expand to the same strings: covered by 'tag'
    q("some tag containing 'python/' is not rejected", z3.Contains(tag, z3.StringVal("python/")), z3.Not(rej),
      *[tag != z3.StringVal(k) for k in plugins])
    # Q3: unregistered !tags are rejected
    q("an unregistered '!' tag is not rejected", z3.PrefixOf(z3.StringVal("!"), tag),
      *[tag != z3.StringVal(k) for k in plugins], z3.Not(rej))
    # Q4: a plugin closure is only reachable under its own tag
    for i, t, k, f in ents:
        if klass[i] == "plugin":
            q("plugin %r reachable under another tag" % k, d == i, tag != z3.StringVal(k))
    return ents, klass, found


def validate_transcription(cls, ents, stats, seed):
    """mirror of the encoding vs the real construct_object on keys, prefixes and solver-made tags"""
    tags = set()
    for i, t, k, f in ents:
        if k is not None:
            tags.update([k, k + "x", k[:-1], k + ":os.system", "x" + k])
    keys, prefixes = python_tag_patterns()
    tags.update(keys)
    tags.update(p + "os.system" for p in prefixes)
    tags.update(["", "!", "!!", "!Unknown", "tag:yaml.org,2002:", "tag:yaml.org,2002:python/", "!LinearController "])
    # solver-generated members of the complement of all keys
    tag = z3.String("tag")
    s = z3.Solver()
    s.set("random_seed", seed % 1000)
    for i, t, k, f in ents:
        if k is not None and t == "exact":
            s.add(tag != z3.StringVal(k))
    s.add(z3.Length(tag) >= 1)
    for _ in range(40):
        if s.check() != z3.sat:
            break
        w = s.model().eval(tag, model_completion=True).as_string()
        tags.add(w)
        s.add(tag != z3.StringVal(w))
    mismatches = []
    for tg in sorted(tags):
        for kd in range(3):
            stats["transcription_checks"] += 1
            a = dispatch_mirror(ents, tg, kd)
            b = real_dispatch(cls, ents, tg, kd)
            if a != b:
                mismatches.append((tg, kd, a, b))
    return mismatches


# ---------------------------------------------------------------------------------------------
CANARY = "vf.harness.c18_canary"
UNIMPORTED = "vf.harness.c18_unimported"


def _complete(witness, ents):
    """turn a witness tag into concrete attack tags with canary targets"""
    out = [witness]
    for i, t, k, f in ents:
        if t == "prefix" and witness.startswith(k):
            out = [k + CANARY + ".fire", k + UNIMPORTED, k + "os.getcwd"]
    for stem in ("python/name:", "python/module:", "python/object:", "python/object/apply:", "python/object/new:"):
        if witness.endswith(stem) or (stem in witness):
            base = witness[: witness.index(stem) + len(stem)]
            out += [base + CANARY + ".fire", base + UNIMPORTED, base + CANARY + ".Canary"]
    seen, res = set(), []
    for x in out:
        if x not in seen:
            seen.add(x)
            res.append(x)
    return res


def _docs(tag, kind):
    v = "!<%s>" % tag
    body = {0: "%s x" % v, 1: "%s []" % v, 2: "%s {}" % v}[kind]
    bodies = [body] + [b for k, b in ((0, "%s x" % v), (1, "%s []" % v), (2, "%s {}" % v)) if k != kind]
    docs = []
    for b in bodies:
        docs.append(("top level", "pipeline:\n  - __type__: %s.DummyPool\n__config_test:\n  x: %s\n" % (CANARY, b)))
        docs.append(("inside the pipeline", "pipeline:\n  - %s\n  - __type__: %s.DummyPool\n" % (b, CANARY)))
        docs.append(("inside a lazily evaluated registered tag",
                     "pipeline:\n  - !Logger\n    name: %s\n  - __type__: %s.DummyPool\n" % (b, CANARY)))
        docs.append(("inside an eagerly evaluated registered tag",
                     "pipeline:\n  - __type__: %s.DummyPool\n__config_test:\n  x: !__yaml_tag_test\n    a: %s\n" % (CANARY, b)))
    return docs


def replay_witness(tag, kind):
    """load crafted documents with the real load(); -> list of confirmed violations"""
    canary = importlib.import_module(CANARY)
    hits = []
    for where, doc in _docs(tag, kind):
        canary.reset()
        sys.modules.pop(UNIMPORTED, None)
        err, res = _load_doc(doc)
        fired = canary.FIRED[:]
        imported = UNIMPORTED in sys.modules
        if fired or imported or err is None:
            hits.append({"where": where, "document": doc, "tag": tag, "canary_fired": fired,
                         "module_imported": imported,
                         "exception": None if err is None else "%s: %s" % (type(err).__name__, str(err)[:200])})
    return hits


# documents with an explicit tag at every kind of position; {T<i>} are the tagged nodes (kind in POSITIONS)
TEMPLATES = [
    ("--- {T0}\npipeline:\n  - __type__: %(c)s.DummyPool\n__config_test: {T1}\n  x: {T2} [1, 2]\n",
     [("document root", "map"), ("section value", "map"), ("value inside a section", "seq")]),
    ("pipeline:\n  - __type__: %(c)s.DummyPool\n__config_test:\n  x: !__yaml_tag_test\n    ? {T0} k1\n    : {T1} [1, {T2} {{a: 2}}]\n",
     [("key of an eager plugin tag's mapping", "str"), ("value of an eager plugin tag's mapping", "seq"),
      ("nested inside an eager plugin tag's value", "map")]),
    ("pipeline:\n  - __type__: %(c)s.DummyPool\n__config_test:\n  x: !__yaml_tag_test [{T0} [1], {T1} {{c: 4}}, {T2} s]\n",
     [("item of a plugin tag's sequence", "seq"), ("item of a plugin tag's sequence", "map"), ("item of a plugin tag's sequence", "str")]),
    ("pipeline:\n  - !Logger\n    ? {T0} name\n    : {T1} verif.c18\n  - __type__: %(c)s.DummyPool\n",
     [("key of a lazy plugin tag's mapping", "str"), ("value of a lazy plugin tag's mapping", "str")]),
    ("pipeline:\n  - {T0}\n    __type__: %(c)s.DummyPool\n",
     [("pipeline element", "map")]),
    ("pipeline:\n  - __type__: %(c)s.DummyPool\n__config_test:\n  <<: {T0} {{a: 1}}\n  b: 2\n",
     [("value of a merge key", "map")]),
    ("pipeline:\n  - __type__: %(c)s.DummyPool\nzzz_extra: {T0}\n  a: 1\n", [("an unclaimed extra section", "map")]),
    ("pipeline:\n  - __type__: %(c)s.DummyPool\n.hidden: {T0} [1]\n", [("an extra section with a dotted name", "seq")]),
    ("pipeline:\n  - __type__: %(c)s.DummyPool\n_private: {T0} x\n", [("an extra section with an underscore name", "str")]),
]
BENIGN_TAG = {"str": "!!str", "seq": "!!seq", "map": "!!map"}


def _render(template, positions, attack=None):
    tags = {}
    for i, (where, kind) in enumerate(positions):
        tags["T%d" % i] = BENIGN_TAG[kind] if i != attack else "!!python/object/apply:%s.fire" % CANARY
    return (template % {"c": CANARY}).format(**tags)


def funnel_check(cls):
    """(1) every node of a benign document with explicit tags everywhere must reach construct_object when the
    document goes through cobald's own load_configuration with a spy subclass of the captured loader - the z3
    claim is about construct_object's dispatch; (2) the same documents with a python/object/apply canary at one
    position at a time must be rejected by the real load().  -> (problems, documents checked)"""
    import cobald.daemon.config.yaml as yaml_mod
    problems, docs = [], 0
    instances = []

    class SpyLoader(cls):
        def __init__(self, stream):
            super().__init__(stream)
            self._visited, self._roots = set(), []
            instances.append(self)

        def compose_document(self):
            node = super().compose_document()
            self._roots.append(node)
            return node

        def construct_object(self, node, deep=False):
            self._visited.add(id(node))
            return super().construct_object(node, deep=deep)

    def walk(node, out):
        out.append(node)
        if isinstance(node, yaml.SequenceNode):
            for c in node.value:
                walk(c, out)
        elif isinstance(node, yaml.MappingNode):
            for k, v in node.value:
                walk(k, out)
                walk(v, out)

    plugins = config_mod.load_section_plugins("cobald.config.sections")
    for template, positions in TEMPLATES:
        docs += 1
        text = _render(template, positions)
        fd, path = tempfile.mkstemp(suffix=".yaml", prefix="verif_c18_")
        del instances[:]
        try:
            with os.fdopen(fd, "w") as f:
                f.write(text)
            try:
                yaml_mod.load_configuration(path, loader=SpyLoader, plugins=plugins)
            except Exception as e:
                problems.append({"position": "benign document", "document": text,
                                 "problem": "benign document failed to load: %s: %s" % (type(e).__name__, e), "attack": None})
                continue
        finally:
            os.unlink(path)
        for ld in instances:
            nodes = []
            for r in ld._roots:
                walk(r, nodes)
            for n in nodes:
                if id(n) not in ld._visited:
                    where = "line %d col %d" % (n.start_mark.line + 1, n.start_mark.column + 1)
                    problems.append({"position": "unvisited node", "document": text, "attack": None,
                                     "problem": "node %s at %s never reached construct_object: its tag is ignored" % (n.tag, where)})
                    break
        if not instances or not any(ld._roots for ld in instances):
            problems.append({"position": "benign document", "document": text, "attack": None,
                             "problem": "the document was not read through the loader class handed to load_configuration"})
        # (2) one canary tag at a time
        for i, (where, kind) in enumerate(positions):
            docs += 1
            attack = _render(template, positions, attack=i)
            canary = importlib.import_module(CANARY)
            canary.reset()
            err, _ = _load_doc(attack)
            if err is None or canary.FIRED:
                problems.append({"position": where, "document": attack, "attack": i,
                                 "problem": "document with a python/object/apply tag at '%s' was %s" % (
                                     where, "accepted" if err is None else "rejected only after the canary fired")})
    return problems, docs


def run(tier, seed):
    t0 = time.time()
    stats = {"queries": 0, "unsat": 0, "unknown": [], "solver_s": 0.0, "entries": 0, "unsafe_entries": 0,
             "transcription_checks": 0}
    samples, violations, engine_errors = [], [], []
    classes, err = capture_loader_classes()
    if err is not None:
        engine_errors.append("benign configuration failed to load: %s: %s" % (type(err).__name__, err))
    if not classes:
        engine_errors.append("the real load() instantiated no PyYAML loader (C-accelerated or foreign parser?)")
    per_class = {}
    for cls in dict.fromkeys(classes):
        SUFFIX[0] = CLASS_SUFFIX.get(cls, SUFFIXES[0])  # witnesses are replayed through the extension that uses this loader
        ents, klass, found = analyse(cls, stats, samples)
        per_class[cls.__module__ + "." + cls.__qualname__] = {
            "bases": [b.__name__ for b in cls.__mro__[1:4]],
            "exact_entries": sum(1 for e in ents if e[1] == "exact"),
            "prefix_entries": sum(1 for e in ents if e[1] == "prefix"),
            "classification": {k: list(klass.values()).count(k) for k in ("safe", "plugin", "reject", "unsafe")},
        }
        mism = validate_transcription(cls, ents, stats, seed)
        for m in mism[:5]:
            engine_errors.append("transcription mismatch on %r kind %d: encoding %d real %d" % m)
        for desc, wit, kd in found:
            confirmed = []
            for t in _complete(wit, ents):
                confirmed += replay_witness(t, kd)
                if confirmed:
                    break
            if confirmed:
                h = confirmed[0]
                violations.append({
                    "harness": "dispatch", "label": desc, "status": "confirmed", "kind": "custom",
                    "module": MOD, "property": PROPERTY, "params": {"loader": cls.__name__, "suffix": SUFFIX[0]},
                    "inputs": {"tag": h["tag"], "where": h["where"], "document": h["document"],
                               "canary_fired": h["canary_fired"], "module_imported": h["module_imported"],
                               "exception": h["exception"]},
                })
            else:
                violations.append({"harness": "dispatch", "label": desc, "status": "unconfirmed (documents were rejected)",
                                   "inputs": {"tag": wit, "kind": kd}, "params": {"loader": cls.__name__},
                                   "property": PROPERTY, "module": MOD})
    funnel_docs = 0
    for cls in list(dict.fromkeys(classes)) or [config_mod.COBalDLoader]:  # positions are checked whatever was captured
        SUFFIX[0] = CLASS_SUFFIX.get(cls, SUFFIXES[0])
        problems, funnel_docs = funnel_check(cls)
        confirmed = {}
        for pr in problems:
            if pr["attack"] is not None:
                confirmed[pr["position"]] = pr
        for pr in problems:
            if pr["attack"] is None and not confirmed:
                # an unvisited node that no attack document confirms: report as engine-level doubt
                engine_errors.append("funnel: %s" % pr["problem"])
        for where, pr in confirmed.items():
            violations.append({"harness": "position", "label": "a python/* tag at every position is rejected",
                               "status": "confirmed", "kind": "custom", "module": MOD, "property": PROPERTY,
                               "params": {"loader": cls.__name__, "suffix": SUFFIX[0]},
                               "inputs": {"position": where, "document": pr["document"], "problem": pr["problem"],
                                          "tag": "tag:yaml.org,2002:python/object/apply:%s.fire" % CANARY}})
    for u in stats["unknown"]:
        engine_errors.append("solver returned unknown for: %s" % u)
    # concrete end-to-end spot checks of the rejection path (trusted-base sanity, not the verdict)
    spot = 0
    if classes:
        keys, prefixes = python_tag_patterns()
        for t in [prefixes[0] + CANARY + ".fire", keys[0], "!NoSuchPlugin"] if prefixes and keys else ["!NoSuchPlugin"]:
            for h in replay_witness(t, 0)[:1]:
                violations.append({"harness": "spot", "label": "document with %r was not rejected" % t,
                                   "status": "confirmed", "kind": "custom", "module": MOD, "property": PROPERTY,
                                   "params": {}, "inputs": h})
            spot += 1
    coverage = {
        "states": max(1, stats["entries"]),
        "transitions": max(1, stats["queries"]),
        "traces_validated_against_impl": stats["transcription_checks"],
        "samples": samples or [{"note": "no loader class captured"}],
        "obligations": stats["queries"], "discharged": stats["unsat"],
        "queries": stats["queries"], "solver_s": round(stats["solver_s"], 3),
        "inconclusive": len(stats["unknown"]),
        "loader_classes": per_class,
        "python_tag_patterns": dict(zip(("keys", "prefixes"), map(len, python_tag_patterns()))),
        "end_to_end_spot_checks": spot,
        "funnel_documents": funnel_docs,
        "functions_encoded": core.function_hashes(FUNCTIONS),
        "bounds": {"tag": "unbounded z3 String", "kind": list(KINDS)},
        "stubs": ["spy on yaml.reader.Reader.__init__ while the real load() runs (records loader classes)"],
        "outside_claim": ["PyYAML's own routing of every node through construct_object",
                          "C-accelerated loaders (CLoader) - would be reported as 'no loader captured'"],
        "exhaustive": True,
        "evaluations": stats["queries"], "distinct_nontrivial": stats["queries"],
        "rule": "one evaluation = one z3 string query over all tags; all are non-trivial (the tables are non-empty)",
    }
    assumptions = ["PyYAML funnels every node at every depth through construct_object",
                   "SafeConstructor's own methods build only plain data",
                   "installed entry points of group cobald.config.yaml_constructors are the registered plugins",
                   "the loader classes are those the real load() instantiates for a .yaml and for a .yml file"]
    return core.finish(PROPERTY, tier, seed, "model_checking", coverage, assumptions, t0, violations,
                       engine_errors, [], PREDICATES)


def replay(v):
    SUFFIX[0] = (v.get("params") or {}).get("suffix", SUFFIXES[0])
    if v.get("harness") in ("funnel", "position"):
        err, _ = _load_doc(v["inputs"]["document"])
        print("REPRODUCED (document accepted)" if err is None else "not reproduced on this tree: %s" % type(err).__name__)
        return 1 if err is None else 0
    hits = replay_witness(v["inputs"]["tag"], 0) + replay_witness(v["inputs"]["tag"], 2)
    for h in hits[:3]:
        print(json.dumps(h)[:400])
    print("REPRODUCED" if hits else "not reproduced on this tree")
    return 1 if hits else 0
