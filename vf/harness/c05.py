"""C05 - a YAML pipeline section builds the chain it describes (Engine S + concrete YAML layer)."""
import os
import tempfile

import cobald.daemon.core.config as config_mod
from cobald.daemon.core.config import load, load_pipeline

from ..core import Task
from ..symx import is_sym
from . import c05_plugins as P
from .common import patched, same

PROPERTY = "C05"
MOD = __name__
FUNCTIONS = [
    "cobald.daemon.core.config:load_pipeline",
    "cobald.daemon.core.config:PipelineTranslator.translate_hierarchy",
    "cobald.daemon.core.config:add_constructor_plugins",
    "cobald.daemon.core.config:load",
    "cobald.daemon.config.yaml:yaml_constructor",
    "cobald.daemon.config.yaml:load_configuration",
    "cobald.daemon.config.mapping:Translator.translate_hierarchy",
    "cobald.daemon.config.mapping:Translator.construct",
    "cobald.interfaces._partial:Partial.__rshift__",
]
MANIFEST = {
    "technique": "symbolic execution of load_pipeline/PipelineTranslator on solver-enumerated form assignments with z3-integer argument values; every path's witness is rendered to YAML text and loaded through the real load()",
    "text": "Bounded symbolic model checking of the pipeline section: n <= 3 (thorough 4) elements, per position the "
            "syntactic form (!Tag mapping / sequence / bare, legacy __type__ mapping), the argument profile (incl. "
            "nested list/mapping values), lazily or eagerly evaluated tags and the position of a failing constructor "
            "are symbolic choices; argument values are symbolic integers. Layer 1 feeds the objects PyYAML delivers "
            "for each form to the real load_pipeline; on every path the construction log must be 'each once, last to "
            "first, exact arguments, target = next element', equal to the same chain built with >>, and a failing "
            "constructor must surface without any earlier element being built. Layer 2 renders each path's witness to "
            "YAML text and loads it through the real load() / COBalDLoader / factory_constructor.",
    "note": "the node-kind -> kwargs/args/() mapping of factory_constructor is exercised concretely on every path's "
            "witness (PyYAML nodes cannot carry symbolic scalars), not symbolically; get_entrypoints is a harness stub",
    "design_ref": "DESIGN.md §3 C05",
}
STUBS = ["get_entrypoints (as seen from cobald.daemon.core.config) -> the harness's recording plugins"]
ASSUMPTIONS = ["plugins are ordinary classes with the .s template factory", "one controller at the head, decorators after it, a pool last"]
OUTSIDE = ["pipelines longer than 4", "YAML anchors/aliases and merge keys", "non-integer scalar arguments in the symbolic layer"]

FORMS = ("tag_mapping", "tag_sequence", "tag_bare", "legacy")
PROFILES = [(), ("a",), ("a", "b"), ("a", "k")]


def BOUNDS(tier):
    return {"pipeline_length": "1..3" if tier == "quick" else "1..4", "forms": FORMS,
            "argument_profiles": [list(p) for p in PROFILES], "nested_argument": "a: [x, {y: z}] by choice at position min(1, n-1)", "eager_tag": "by choice at position 1"}


class EP:
    extras = None

    def __init__(self, name, obj):
        self.name, self._obj = name, obj

    def load(self):
        return self._obj


def _entrypoints(group):
    if group == "cobald.config.yaml_constructors":
        return [EP(name, cls) for name, cls in P.PLUGINS.items()]
    if group == "cobald.config.sections":
        return [EP("pipeline", load_pipeline)]
    return []


def _cls_for(i, n, failing, eager):
    if i == n - 1:
        return P.BoomPool if failing else P.ThePool
    if i == 0:
        return P.BoomCtl if failing else P.Ctl
    if failing:
        return P.BoomDeco
    return P.EagerDeco if eager else P.Deco


def _spec(ctx, n):
    """symbolic description of the section: per element (cls, form, kwargs in order)"""
    fail = ctx.choice("fail_pos", n + 1)  # n = nobody fails
    spec = []
    for i in range(n):
        form = FORMS[ctx.choice("form%d" % i, len(FORMS))]
        eager = ctx.flag("eager%d" % i) if i == 1 and n > 2 else False
        cls = _cls_for(i, n, fail == i, eager)
        if form == "tag_bare":
            names = ()
        elif form == "tag_sequence":
            names = PROFILES[ctx.choice("profile%d" % i, 3)]  # (), (a), (a, b): positional
        else:
            names = PROFILES[ctx.choice("profile%d" % i, len(PROFILES))]
        kw = {}
        for name in names:
            if name == "a" and i == min(1, n - 1) and ctx.flag("nested%d" % i):
                kw[name] = [ctx.num("e%d_a0" % i, "int"), {"y": ctx.num("e%d_a1" % i, "int")}]
            else:
                kw[name] = ctx.num("e%d_%s" % (i, name), "int")
        spec.append((cls, form, kw))
    return spec, fail


def _content(spec):
    """the python objects PyYAML + factory_constructor deliver for each form"""
    out = []
    for cls, form, kw in spec:
        if form == "tag_mapping":
            out.append(cls.s(**kw))
        elif form == "tag_sequence":
            out.append(cls.s(*kw.values()))
        elif form == "tag_bare":
            out.append(cls.s())
        else:
            out.append({"__type__": "vf.harness.c05_plugins.%s" % cls.__name__, **kw})
    return out


def _scalar(v):
    return str(int(v))


def _yaml_value(v):
    if isinstance(v, list):
        return "[%s, {y: %s}]" % (_scalar(v[0]), _scalar(v[1]["y"]))
    return _scalar(v)


def _yaml(spec):
    lines = ["pipeline:"]
    for cls, form, kw in spec:
        if form == "tag_mapping":
            lines.append("  - !%s" % cls.__name__)
            if not kw:
                lines[-1] += " {}"
            for k, v in kw.items():
                lines.append("    %s: %s" % (k, _yaml_value(v)))
        elif form == "tag_sequence":
            lines.append("  - !%s [%s]" % (cls.__name__, ", ".join(_yaml_value(v) for v in kw.values())))
        elif form == "tag_bare":
            # a scalar node, with or without content, means "no arguments"
            lines.append("  - !%s%s" % (cls.__name__, " ~" if len(lines) % 2 else ""))
        else:
            lines.append("  - __type__: vf.harness.c05_plugins.%s" % cls.__name__)
            for k, v in kw.items():
                lines.append("    %s: %s" % (k, _yaml_value(v)))
    return "\n".join(lines) + "\n"


def _eq(got, want, by_value):
    if isinstance(want, list):
        return isinstance(got, list) and len(got) == 2 and _eq(got[0], want[0], by_value) \
            and isinstance(got[1], dict) and list(got[1]) == ["y"] and _eq(got[1]["y"], want[1]["y"], by_value)
    if by_value:
        return got == want
    return same(got, want) or (not is_sym(got) and not is_sym(want) and got is want)


def _check(ctx, tag, spec, fail, result, err, log, by_value):
    n = len(spec)
    real_ctx = ctx
    if by_value:  # the YAML layer only exists in concrete replays
        class _C:
            require = staticmethod(lambda cond, label, **kw: real_ctx.require_concrete(cond, label))
        ctx = _C
    first_built = fail if fail < n else 0
    expect = list(range(n - 1, first_built - 1, -1))  # last to first, stopping at the failing one
    ctx.require([type(o).__name__ for o, _, _ in log] == [spec[i][0].__name__ for i in expect],
                tag + "each element is constructed exactly once, last to first, nothing before a failing one")
    if len(log) != len(expect):
        return
    prev = None
    for (obj, target, seen), i in zip(log, expect):
        cls, form, kw = spec[i]
        want = {"a": 0, "b": 0, "k": None}
        want.update(kw)
        ok = True
        for k in want:
            if k in kw:
                ok = ok and _eq(seen[k], kw[k], by_value)
            else:
                ok = ok and (seen[k] is None if want[k] is None else (not is_sym(seen[k]) and seen[k] == want[k]))
        ctx.require(ok, tag + "constructed with exactly the configured arguments")
        ctx.require(target is prev, tag + "every element's target is the very next object")
        prev = obj
    if fail < n:
        ctx.require(err is not None, tag + "a constructor error surfaces as an exception from loading")
        ctx.require(result is None, tag + "no partially linked pipeline is returned")
        return
    ctx.require(err is None, tag + "a valid pipeline loads without error")
    if err is not None:
        return
    ctx.require(isinstance(result, list) and len(result) == n, tag + "n objects in configuration order")
    built = [o for o, _, _ in reversed(log)]
    ctx.require(all(a is b for a, b in zip(result, built)), tag + "the returned list is the constructed chain in order")
    for i in range(n - 1):
        ctx.require(result[i].target is result[i + 1], tag + "every element's target is the very next object")
    ctx.require(isinstance(result[-1], P.ThePool), tag + "the last element is the pool")


def pipeline(ctx, n):
    spec, fail = _spec(ctx, n)
    # layer 1: the objects PyYAML delivers, through the real section plugin
    del P.LOG[:]
    try:
        content = _content(spec)
        result, err = load_pipeline(content), None
    except Exception as e:
        result, err = None, e
    log = list(P.LOG)
    ctx.reach()
    ctx.observe("constructed", [type(o).__name__ for o, _, _ in log])
    _check(ctx, "objects: ", spec, fail, result, err, log, by_value=False)
    # the same chain written with >>
    if fail == n and err is None and n > 1:
        del P.LOG[:]
        chain = None
        for cls, form, kw in reversed(spec):
            if form == "tag_sequence":
                t = cls.s(*kw.values())
            else:
                t = cls.s(**kw)
            chain = (t >> chain) if chain is not None else t.__construct__()
        ref = list(P.LOG)
        ctx.require([type(o).__name__ for o, _, _ in ref] == [type(o).__name__ for o, _, _ in log]
                    and all(all(_eq(a[2][k], b[2][k], False) or (a[2][k] is None and b[2][k] is None)
                                or (not is_sym(a[2][k]) and not isinstance(a[2][k], list) and a[2][k] == b[2][k] == 0)
                                for k in ("a", "b", "k")) for a, b in zip(ref, log)),
                    "the result equals the pipeline built in python with >>")
    # layer 2 (concrete replays only): the witness rendered as YAML text through the real load()
    if ctx.mode == "conc":
        text = _yaml(spec)
        fd, path = tempfile.mkstemp(suffix=".yaml", prefix="verif_c05_")
        try:
            with os.fdopen(fd, "w") as f:
                f.write(text)
            del P.LOG[:]
            with patched((config_mod, "get_entrypoints", _entrypoints)):
                try:
                    with load(path) as cfg:
                        result2 = next(v for p, v in cfg.items() if p.section == "pipeline")
                    err2 = None
                except Exception as e:
                    result2, err2 = None, e
            log2 = list(P.LOG)
        finally:
            os.unlink(path)
        ctx.observe("yaml_constructed", [type(o).__name__ for o, _, _ in log2])
        _check(ctx, "yaml: ", spec, fail, result2, err2, log2, by_value=True)
    else:
        ctx.observe("yaml_constructed", [type(o).__name__ for o, _, _ in log])


def tasks(tier, seed):
    nmax = 3 if tier == "quick" else 4
    out = []
    for n in range(1, nmax + 1):
        out.append(Task(MOD, "pipeline", dict(n=n), model="Z", weight=20 ** n,
                        shards=1 if n < 3 else (8 if n == 3 else 64),
                        witness_every=1 if n < 3 or (n == 3 and tier == "thorough") else (3 if n == 3 else 13)))
    return out


PREDICATES = {}
