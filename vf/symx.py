"""Engine S: native symbolic execution of cobald's own code on z3-backed number proxies.

The harness function is an ordinary Python function ``harness(ctx)``; it builds inputs with
``ctx.num / ctx.flag / ctx.choice``, runs the *real* cobald code on them and states proof
obligations with ``ctx.require``.  Every ``if`` of the real code that depends on a proxy ends in
``SBool.__bool__`` -> ``Ctx.decide``: the solver decides which sides are feasible, the untaken
feasible side is pushed on a work-list and the harness is re-run natively from the top with the
recorded decision prefix (DFS with decision-prefix replay).

Number models (``Ctx.model``):
  Z   python int -> z3 Int; no floats
  R   python int -> z3 Int, finite python float -> z3 Real (exact arithmetic, no rounding)
  G4  python int -> z3 Int k, finite python float -> z3 Int n standing for n/4 (pure QF_LIA)

+-inf are concrete python floats.  nan never enters.  Anything that would need the concrete value
of a symbolic number raises ``Unsupported`` (an engine error, never a silent concretisation).
"""
from __future__ import annotations

import math
import os
import threading
import time
from fractions import Fraction

import z3

INF = float("inf")
UNEXPECTED = "no unexpected exception (%s)"


class Unsupported(BaseException):
    """The code under test asked a proxy for something the engine cannot model (engine error)."""


class PathAbort(BaseException):
    """The current path is infeasible (unsatisfiable assumption)."""


class CutPath(BaseException):
    """The harness cut this path on purpose (counted, outside the claim)."""


class EngineError(Exception):
    pass


class ShardSkip(BaseException):
    """this subtree (below the sharding depth) belongs to another shard"""


_CTX: "Ctx | None" = None


def ctx() -> "Ctx":
    if _CTX is None:
        raise EngineError("no active symbolic context")
    return _CTX


# ---------------------------------------------------------------------------------------------
# boolean proxy
# ---------------------------------------------------------------------------------------------
class SBool:
    __slots__ = ("t",)

    def __init__(self, t):
        self.t = t

    def __bool__(self):
        return ctx().decide(self.t)

    def __repr__(self):
        return "<SBool>"

    def __hash__(self):
        raise Unsupported("hash of symbolic bool")

    def __eq__(self, other):
        o = _bool_term(other)
        if o is None:
            return NotImplemented
        return SBool(self.t == o)

    def __ne__(self, other):
        o = _bool_term(other)
        if o is None:
            return NotImplemented
        return SBool(self.t != o)

    def __and__(self, other):
        return And(self, other)

    __rand__ = __and__

    def __or__(self, other):
        return Or(self, other)

    __ror__ = __or__

    def __invert__(self):
        return Not(self)


def _bool_term(x):
    if isinstance(x, SBool):
        return x.t
    if isinstance(x, bool):
        return z3.BoolVal(x)
    if z3.is_bool(x):
        return x
    return None


def _bt(x):
    t = _bool_term(x)
    if t is None:
        # fall back to python truthiness for foreign objects
        return z3.BoolVal(bool(x))
    return t


def _wrap_bool(t):
    t = z3.simplify(t)
    if z3.is_true(t):
        return True
    if z3.is_false(t):
        return False
    return SBool(t)


def And(*xs):
    if all(isinstance(x, bool) for x in xs):
        return all(xs)
    return _wrap_bool(z3.And(*[_bt(x) for x in xs]))


def Or(*xs):
    if all(isinstance(x, bool) for x in xs):
        return any(xs)
    return _wrap_bool(z3.Or(*[_bt(x) for x in xs]))


def Not(x):
    if isinstance(x, bool):
        return not x
    return _wrap_bool(z3.Not(_bt(x)))


def Implies(a, b):
    if isinstance(a, bool) and isinstance(b, bool):
        return (not a) or b
    return _wrap_bool(z3.Implies(_bt(a), _bt(b)))


def Ite(c, a, b):
    """value-level if-then-else that does not fork (harness/oracle side only)."""
    if isinstance(c, bool):
        return a if c else b
    ta, tb, fl = _common(a, b)
    r = z3.If(_bt(c), ta, tb)
    return SFloat._mk(r) if fl else SInt._mk(r)


# ---------------------------------------------------------------------------------------------
# number proxies
# ---------------------------------------------------------------------------------------------
def _is_conc_num(x):
    return isinstance(x, (int, float, Fraction)) and not isinstance(x, bool) or isinstance(x, bool)


def _lift(x):
    """python number -> proxy (finite) or the python float itself (+-inf)."""
    if isinstance(x, SNum):
        return x
    if isinstance(x, bool):
        return SInt._mk(z3.IntVal(int(x)))
    if isinstance(x, int):
        return SInt._mk(z3.IntVal(x))
    if isinstance(x, float):
        if math.isnan(x):
            raise Unsupported("nan literal")
        if math.isinf(x):
            return x
        return SFloat._const(Fraction(x))
    if isinstance(x, Fraction):
        return SFloat._const(x)
    if isinstance(x, XF):
        return SFloat._const(x.q)
    return None


def _scale():
    return 4 if ctx().model == "G4" else 1


def _fterm(x: "SNum"):
    """term of x on the float scale of the current model"""
    m = ctx().model
    if x.is_float:
        return x.t
    if m == "G4":
        return x.t * 4
    return z3.ToReal(x.t)


def _common(a, b):
    """-> (term_a, term_b, is_float) on a common scale; a, b proxies or finite python numbers"""
    a, b = _lift(a), _lift(b)
    if a is None or b is None or isinstance(a, float) or isinstance(b, float):
        raise Unsupported("non-finite or foreign operand in _common")
    if a.is_float or b.is_float:
        return _fterm(a), _fterm(b), True
    return a.t, b.t, False


def _stand_in(kind_float):
    return 1.0 if kind_float else 1


class SNum:
    __slots__ = ("t",)
    is_float = False

    # -- construction -----------------------------------------------------------------------
    @classmethod
    def _mk(cls, t):
        self = object.__new__(cls)
        self.t = t
        return self

    def __repr__(self):
        # z3 is not thread-safe and reprs are also requested by other threads (logging, GC):
        # never touch the term here
        return "<%s>" % type(self).__name__

    __str__ = __repr__

    def __hash__(self):
        c = ctx()
        if c.allow_hash:
            return id(self)
        raise Unsupported("hash of symbolic number")

    def __float__(self):
        raise Unsupported("float() needs a concrete value")

    def __int__(self):
        raise Unsupported("int() needs a concrete value")

    def __index__(self):
        raise Unsupported("__index__ needs a concrete value")

    def __round__(self, n=None):
        raise Unsupported("round() needs a concrete value")

    def __format__(self, spec):
        if spec:
            raise Unsupported("format(%r) needs a concrete value" % spec)
        return repr(self)

    def __bool__(self):
        return ctx().decide(self.t != 0)

    # -- comparisons ------------------------------------------------------------------------
    def _cmp(self, other, op):
        if isinstance(other, float) and math.isnan(other):  # a concrete nan: every ordering is False, != is True
            return op(0.0, other)
        o = _lift(other)
        if o is None:
            return NotImplemented
        if isinstance(o, float):  # +-inf: decided by CPython on a finite stand-in
            return op(_stand_in(self.is_float), o)
        ta, tb, _ = _common(self, o)
        return _wrap_bool(op(ta, tb))

    def __lt__(self, o):
        return self._cmp(o, lambda a, b: a < b)

    def __le__(self, o):
        return self._cmp(o, lambda a, b: a <= b)

    def __gt__(self, o):
        return self._cmp(o, lambda a, b: a > b)

    def __ge__(self, o):
        return self._cmp(o, lambda a, b: a >= b)

    def __eq__(self, o):
        return self._cmp(o, lambda a, b: a == b)

    def __ne__(self, o):
        return self._cmp(o, lambda a, b: a != b)

    # -- arithmetic -------------------------------------------------------------------------
    def _arith(self, other, op, reflected=False):
        o = _lift(other)
        if o is None:
            return NotImplemented
        a, b = (o, self) if reflected else (self, o)
        return _binop(a, b, op)

    def __add__(self, o):
        return self._arith(o, "+")

    def __radd__(self, o):
        return self._arith(o, "+", True)

    def __sub__(self, o):
        return self._arith(o, "-")

    def __rsub__(self, o):
        return self._arith(o, "-", True)

    def __mul__(self, o):
        return self._arith(o, "*")

    def __rmul__(self, o):
        return self._arith(o, "*", True)

    def __truediv__(self, o):
        return self._arith(o, "/")

    def __rtruediv__(self, o):
        return self._arith(o, "/", True)

    def __floordiv__(self, o):
        return self._arith(o, "//")

    def __rfloordiv__(self, o):
        return self._arith(o, "//", True)

    def __mod__(self, o):
        return self._arith(o, "%")

    def __rmod__(self, o):
        return self._arith(o, "%", True)

    def __pow__(self, o, m=None):
        raise Unsupported("pow")

    __rpow__ = __pow__

    def __neg__(self):
        return type(self)._mk(-self.t)

    def __pos__(self):
        return self

    def __abs__(self):
        if ctx().decide(self.t >= 0):
            return self
        return type(self)._mk(-self.t)


class SInt(SNum):
    __slots__ = ()
    is_float = False

    def __new__(cls, x=0):
        """int(x) as CPython defines it"""
        if isinstance(x, SInt):
            return x
        if isinstance(x, SFloat):
            return _trunc(x)
        if isinstance(x, (int, float, Fraction)):
            return cls._mk(z3.IntVal(int(x)))  # int(inf) raises OverflowError like CPython
        raise TypeError("int() argument must be a number, not %r" % type(x).__name__)


class SFloat(SNum):
    __slots__ = ()
    is_float = True

    def __new__(cls, x=0.0):
        """float(x) as CPython defines it (no rounding modelled)"""
        if isinstance(x, SFloat):
            return x
        if isinstance(x, SInt):
            return cls._mk(_fterm(x))
        if isinstance(x, float) and math.isinf(x):
            return x
        if isinstance(x, (int, float, Fraction)):
            return cls._const(Fraction(x))
        raise TypeError("float() argument must be a number, not %r" % type(x).__name__)

    @classmethod
    def _const(cls, q: Fraction):
        m = ctx().model
        if m == "G4":
            n = q * 4
            if n.denominator != 1:
                raise Unsupported("literal %s is off the 1/4 grid" % q)
            return cls._mk(z3.IntVal(int(n)))
        if m == "Z":
            raise Unsupported("float literal in model Z")
        return cls._mk(z3.RealVal(str(q)))


def _trunc(x: SFloat) -> SInt:
    c = ctx()
    k = c.fresh_int("trunc")
    if c.model == "G4":
        if c.decide(x.t >= 0):
            c.add(z3.And(k * 4 <= x.t, x.t < k * 4 + 4))
        else:
            c.add(z3.And(k * 4 >= x.t, x.t > k * 4 - 4))
    else:
        kr = z3.ToReal(k)
        if c.decide(x.t >= 0):
            c.add(z3.And(kr <= x.t, x.t < kr + 1))
        else:
            c.add(z3.And(kr >= x.t, x.t > kr - 1))
    return SInt._mk(k)


def _sign_fork(x: SNum):
    """-> 1, 0, -1 by forking"""
    c = ctx()
    if c.decide(x.t > 0):
        return 1
    if c.decide(x.t == 0):
        return 0
    return -1


def _binop(a, b, op):
    """a, b: proxies or +-inf python floats (at least one proxy)"""
    c = ctx()
    a_inf, b_inf = isinstance(a, float), isinstance(b, float)
    if a_inf or b_inf:
        return _binop_inf(a, b, op)
    fl = a.is_float or b.is_float
    if op in "+-":
        ta, tb, fl = _common(a, b)
        r = ta + tb if op == "+" else ta - tb
        return (SFloat if fl else SInt)._mk(r)
    if op == "*":
        if c.model == "G4" and a.is_float and b.is_float:
            raise Unsupported("float*float leaves the 1/4 grid")
        if c.model == "G4":
            # int*float keeps the grid: numerator * int
            return (SFloat if fl else SInt)._mk(a.t * b.t)
        ta, tb, fl = _common(a, b)
        return (SFloat if fl else SInt)._mk(ta * tb)
    if op == "/":
        if c.decide(b.t == 0):
            raise ZeroDivisionError("division by zero")
        if c.model != "R":
            raise Unsupported("true division in model %s" % c.model)
        return SFloat._mk(_fterm(a) / _fterm(b))
    if op in ("//", "%"):
        if c.decide(b.t == 0):
            raise ZeroDivisionError("integer division or modulo by zero")
        ta, tb, fl = _common(a, b)
        # floor is a function: the same quotient variable for syntactically equal operands
        memo_key = (ta.get_id(), tb.get_id())
        hit = c.floor_memo.get(memo_key)
        if hit is not None and hit[0].eq(ta) and hit[1].eq(tb):
            q = hit[2]
            qq = z3.ToReal(q) if (fl and c.model == "R") else q
        else:
            q = c.fresh_int("q")
            qq = z3.ToReal(q) if (fl and c.model == "R") else q
            if c.decide(tb > 0):
                c.add(z3.And(qq * tb <= ta, ta < (qq + 1) * tb))
            else:
                c.add(z3.And(qq * tb >= ta, ta > (qq + 1) * tb))
            c.floor_memo[memo_key] = (ta, tb, q)
        if op == "//":
            if fl:
                return SFloat._mk(q * 4 if c.model == "G4" else z3.ToReal(q))
            return SInt._mk(q)
        r = ta - qq * tb
        return (SFloat if fl else SInt)._mk(r)
    raise Unsupported("operator %s" % op)


def _binop_inf(a, b, op):
    """IEEE results with one (or two) non-finite operands; symbolic finite operand x"""
    if isinstance(a, float) and isinstance(b, float):
        raise EngineError("both operands concrete")
    if op in "+-":
        if isinstance(b, float):
            return b if op == "+" else -b
        return a  # inf + x, inf - x
    if op == "*":
        x, i = (b, a) if isinstance(a, float) else (a, b)
        s = _sign_fork(x)
        if s == 0:
            raise Unsupported("0 * inf = nan")
        return i if s > 0 else -i
    if op == "/":
        if isinstance(b, float):  # x / inf = 0.0 (sign of zero not modelled)
            return SFloat(0.0)
        s = _sign_fork(b)  # inf / x
        if s == 0:
            raise ZeroDivisionError("float division by zero")
        return a if s > 0 else -a
    if op == "//":
        if isinstance(b, float):
            # x // inf = 0.0 for x >= 0 (b=+inf), -1.0 for x < 0; mirrored for -inf
            s = _sign_fork(a)
            if s == 0:
                return SFloat(0.0)
            same = (s > 0) == (b > 0)
            return SFloat(0.0 if same else -1.0)
        raise Unsupported("inf // x = nan")
    raise Unsupported("operator %s with inf" % op)


# ---------------------------------------------------------------------------------------------
class SSeq:
    """stand-in for a str / list / tuple value of symbolic length: only its emptiness is observable"""

    __slots__ = ("kind", "n")

    def __init__(self, kind, n):
        self.kind, self.n = kind, n  # n: z3 Int term (length)

    def __bool__(self):
        return ctx().decide(self.n != 0)

    def __len__(self):
        raise Unsupported("len() of a symbolic sequence needs a concrete value")

    def __iter__(self):
        raise Unsupported("iteration over a symbolic sequence")

    def __hash__(self):
        raise Unsupported("hash of a symbolic sequence")

    def __eq__(self, other):
        if isinstance(other, {"str": str, "list": list, "tuple": tuple}[self.kind]):
            if len(other) == 0:
                return _wrap_bool(self.n == 0)
            return _wrap_bool(z3.And(self.n == len(other), z3.Bool("seq_eq!%d" % id(self))))
        return NotImplemented

    def __ne__(self, other):
        r = self.__eq__(other)
        return r if r is NotImplemented else Not(r)

    def __repr__(self):
        return "<symbolic %s>" % self.kind

    __str__ = __repr__


class TInt(int):
    """concrete-replay int input: a distinct object per input even for equal values, so that
    identity obligations ("the very object supplied") stay meaningful when the model says 0"""

    __slots__ = ()


class XF:
    """exact stand-in for a finite python float in concrete replays: arithmetic over Q, but the
    *type behaviour* of float (// and % stay XF, int + XF -> XF, XF(x) converts like float(x))"""

    __slots__ = ("q",)

    def __init__(self, x=0):
        if isinstance(x, XF):
            self.q = x.q
        elif isinstance(x, float) and (math.isinf(x) or math.isnan(x)):
            raise OverflowError("XF of non-finite float")
        else:
            self.q = Fraction(x)

    @staticmethod
    def _o(o):
        if isinstance(o, XF):
            return o.q
        if isinstance(o, bool):
            return Fraction(int(o))
        if isinstance(o, (int, Fraction)):
            return Fraction(o)
        if isinstance(o, float):
            return o if (math.isinf(o) or math.isnan(o)) else Fraction(o)
        return None

    def _bin(self, o, f, refl=False):
        v = self._o(o)
        if v is None:
            return NotImplemented
        if isinstance(v, float):  # non-finite: let CPython decide on a float stand-in
            a, b = (v, float(self.q)) if refl else (float(self.q), v)
            return f(a, b)
        a, b = (v, self.q) if refl else (self.q, v)
        r = f(a, b)
        return XF(r) if not isinstance(r, bool) else r

    def __add__(self, o): return self._bin(o, lambda a, b: a + b)
    def __radd__(self, o): return self._bin(o, lambda a, b: a + b, True)
    def __sub__(self, o): return self._bin(o, lambda a, b: a - b)
    def __rsub__(self, o): return self._bin(o, lambda a, b: a - b, True)
    def __mul__(self, o): return self._bin(o, lambda a, b: a * b)
    def __rmul__(self, o): return self._bin(o, lambda a, b: a * b, True)
    def __truediv__(self, o): return self._bin(o, lambda a, b: a / b)
    def __rtruediv__(self, o): return self._bin(o, lambda a, b: a / b, True)
    def __floordiv__(self, o): return self._bin(o, lambda a, b: a // b)
    def __rfloordiv__(self, o): return self._bin(o, lambda a, b: a // b, True)
    def __mod__(self, o): return self._bin(o, lambda a, b: a % b)
    def __rmod__(self, o): return self._bin(o, lambda a, b: a % b, True)
    def __lt__(self, o): return self._bin(o, lambda a, b: a < b)
    def __le__(self, o): return self._bin(o, lambda a, b: a <= b)
    def __gt__(self, o): return self._bin(o, lambda a, b: a > b)
    def __ge__(self, o): return self._bin(o, lambda a, b: a >= b)

    def __eq__(self, o):
        v = self._o(o)
        if v is None:
            return NotImplemented
        return self.q == v

    def __ne__(self, o):
        v = self._o(o)
        if v is None:
            return NotImplemented
        return self.q != v

    def __hash__(self): return hash(self.q)
    def __neg__(self): return XF(-self.q)
    def __pos__(self): return self
    def __abs__(self): return XF(abs(self.q))
    def __bool__(self): return self.q != 0
    def __int__(self): return int(self.q)
    def __trunc__(self): return int(self.q)
    def __float__(self): return float(self.q)
    def __repr__(self): return "XF(%s)" % self.q
    __str__ = __repr__


# ---------------------------------------------------------------------------------------------
# context / explorer
# ---------------------------------------------------------------------------------------------
class Violation:
    def __init__(self, label, occurrence, inputs, detail=None):
        self.label = label
        self.occurrence = occurrence
        self.inputs = inputs
        self.detail = detail


class Stats:
    FIELDS = (
        "paths", "aborted", "cut", "decisions", "queries", "obligations", "discharged",
        "inconclusive", "unknown_decisions", "nontrivial", "witness_ok", "witness_rounding",
        "solver_s",
    )

    def __init__(self):
        for f in self.FIELDS:
            setattr(self, f, 0)

    def add(self, other):
        for f in self.FIELDS:
            setattr(self, f, getattr(self, f) + getattr(other, f))

    def as_dict(self):
        return {f: getattr(self, f) for f in self.FIELDS}


class Ctx:
    """One run of a harness (symbolic with a decision prefix, or concrete on given inputs)."""

    def __init__(self, model="R", prefix=(), mode="sym", inputs=None, seed=0, twin=False,
                 stats=None, exact=False):
        self.model = model
        self.mode = mode
        self.prefix = list(prefix)
        self.decisions = []
        self.worklist = []
        self.inputs = {}  # name -> (kind, z3 var)   [sym]
        self.conc_inputs = inputs or {}  # name -> python value [conc]
        self.exact = exact  # conc mode: floats as Fractions
        self.observations = []  # (label, value)
        self.violations = []
        self.inconclusive = []
        self.failed_conc = []  # conc mode: (label, occurrence)
        self.failed_conc_only = []
        self.req_count = {}
        self.allow_hash = False
        self.twin = twin
        self.stats = stats or Stats()
        self.assumptions_log = []
        self._fresh = 0
        self._lock = threading.RLock()
        self.seed = seed
        self.notes = {}
        self.floor_memo = {}
        self.shard = None
        if mode == "sym":
            self.solver = z3.Solver()
            self.solver.set("timeout", 2000)
            if seed:
                self.solver.set("random_seed", seed % 1000)

    # -- inputs -------------------------------------------------------------------------------
    def num(self, name, kind="float"):
        """fresh symbolic input; kind 'int' | 'float'"""
        if self.mode == "conc":
            v = self.conc_inputs[name]
            if kind == "float":
                if isinstance(v, float) and math.isinf(v):
                    return v
                return XF(v) if self.exact else float(v)
            return TInt(int(v))
        with self._lock:
            if name in self.inputs:
                raise EngineError("duplicate input %s" % name)
            if kind == "int" or self.model == "G4":
                v = z3.Int(name)
            else:
                if self.model == "Z":
                    raise EngineError("float input in model Z")
                v = z3.Real(name)
            self.inputs[name] = (kind, v)
        return (SFloat if kind == "float" else SInt)._mk(v)

    def flag(self, name):
        if self.mode == "conc":
            return bool(self.conc_inputs[name])
        with self._lock:
            v = z3.Bool(name)
            self.inputs[name] = ("bool", v)
        return self.decide(v)

    def choice(self, name, n, fixed=None):
        """symbolic structural choice in range(n), resolved by forking (or pinned by the shard)"""
        if self.mode == "conc":
            return int(self.conc_inputs[name])
        with self._lock:
            v = z3.Int(name)
            self.inputs[name] = ("int", v)
        self.add(z3.And(v >= 0, v < n))
        if fixed is not None:
            self.add(v == fixed)
            return fixed
        for i in range(n - 1):
            if self.decide(v == i):
                return i
        self.add(v == n - 1)
        return n - 1

    def boolvalue(self, name):
        """a symbolic bool VALUE (not resolved by forking): something the code under test may test"""
        if self.mode == "conc":
            return bool(self.conc_inputs[name])
        with self._lock:
            v = z3.Bool(name)
            self.inputs[name] = ("bool", v)
        return SBool(v)

    def seq(self, name, kind, maxlen=3):
        """a str / list / tuple value of symbolic length 0..maxlen"""
        if self.mode == "conc":
            n = int(self.conc_inputs[name])
            return {"str": "x" * n, "list": [0] * n, "tuple": (0,) * n}[kind]
        with self._lock:
            v = z3.Int(name)
            self.inputs[name] = ("int", v)
        self.add(z3.And(v >= 0, v <= maxlen))
        return SSeq(kind, v)

    def fresh_int(self, stem):
        with self._lock:
            self._fresh += 1
            return z3.Int("%s!%d" % (stem, self._fresh))

    # -- path condition ------------------------------------------------------------------------
    def add(self, t):
        if self.mode == "conc":
            return
        self.solver.add(t)

    def _check(self, *extra):
        st = self.stats
        st.queries += 1
        t0 = time.perf_counter()
        try:
            self.solver.push()
            for e in extra:
                self.solver.add(e)
            r = self.solver.check()
            model = self.solver.model() if r == z3.sat else None
            if r == z3.unknown:
                r, model = self._fallback(extra)
            self.solver.pop()
        finally:
            st.solver_s += time.perf_counter() - t0
        return r, model

    def _fallback(self, extra):
        asserts = list(self.solver.assertions())
        for tac, to in ((None, 10000), (("simplify", "fm", "smt"), 20000)):
            try:
                s = z3.Solver() if tac is None else z3.Then(*tac).solver()
                s.set("timeout", to)
                s.add(*asserts)
                r = s.check()
                if r != z3.unknown:
                    return r, (s.model() if r == z3.sat else None)
            except z3.Z3Exception:
                continue
        return z3.unknown, None

    def decide(self, cond):
        """fork point: returns the truth value of z3 Bool `cond` on this path"""
        if isinstance(cond, bool):
            return cond
        if self.mode == "conc":
            raise EngineError("symbolic decision in concrete mode")
        with self._lock:
            cond = z3.simplify(cond)
            if z3.is_true(cond):
                return True
            if z3.is_false(cond):
                return False
            i = len(self.decisions)
            if i < len(self.prefix):
                choice = self.prefix[i]
            else:
                rt, _ = self._check(cond)
                t_ok = rt != z3.unsat
                rf, _ = self._check(z3.Not(cond))
                f_ok = rf != z3.unsat
                if rt == z3.unknown or rf == z3.unknown:
                    self.stats.unknown_decisions += 1
                if not (t_ok or f_ok):
                    raise PathAbort()
                if t_ok and f_ok:
                    self.worklist.append(self.decisions + [False])
                choice = t_ok
            self.decisions.append(choice)
            self.stats.decisions += 1
            self.solver.add(cond if choice else z3.Not(cond))
            if self.shard is not None and len(self.decisions) == self.shard[2]:
                i, n, d = self.shard
                bits = 0
                for b in self.decisions:
                    bits = (bits * 2 + (1 if b else 0)) * 1000003 % 2147483647
                if bits % n != i:
                    raise ShardSkip()
            return choice

    def assume(self, cond, note=None):
        """restrict the inputs (listed in evidence); infeasible -> path aborted, never success"""
        if self.mode == "conc":
            if not cond:
                raise PathAbort()
            return
        if isinstance(cond, bool):
            if not cond:
                raise PathAbort()
            return
        with self._lock:
            t = _bt(cond)
            self.solver.add(t)
            # feasibility is checked lazily by the next decide()/require(); cheap explicit check:
            r, _ = self._check()
            if r == z3.unsat:
                raise PathAbort()

    def cut(self, why):
        self.notes.setdefault("cuts", []).append(why)
        raise CutPath(why)

    # -- obligations ---------------------------------------------------------------------------
    def require(self, cond, label, antecedent=None, detail=None, fatal=False):
        """proof obligation: pc => (antecedent => cond); fatal: a failure poisons/ends this shard"""
        ok = self._require(cond, label, antecedent, detail)
        if fatal and not ok:
            self.notes["fatal"] = label
        return ok

    def _require(self, cond, label, antecedent=None, detail=None):
        with self._lock:
            occ = self.req_count.get(label, 0)
            self.req_count[label] = occ + 1
            if self.mode == "conc":
                if antecedent is not None and not antecedent:
                    return True
                ok = bool(cond)
                if not ok:
                    self.failed_conc.append((label, occ, detail))
                return ok
            st = self.stats
            st.obligations += 1
            if antecedent is not None:
                at = _bt(antecedent)
                ra, _ = self._check(at)
                if ra == z3.unsat:
                    st.discharged += 1  # vacuous on this path; not counted as non-trivial
                    return True
                st.nontrivial += 1
                neg = z3.And(at, z3.Not(_bt(cond)))
            else:
                st.nontrivial += 1
                neg = z3.Not(_bt(cond))
            neg = z3.simplify(neg)
            if z3.is_false(neg):
                st.discharged += 1
                return True
            r, model = self._check(neg)
            if r == z3.unsat:
                st.discharged += 1
                return True
            if r == z3.unknown:
                st.inconclusive += 1
                self.inconclusive.append((label, occ))
                return True
            self.violations.append(Violation(label, occ, self.model_inputs(model), detail))
            return False

    def require_concrete(self, cond, label, detail=None):
        """obligation that only exists in concrete replays (e.g. on real YAML text rendered from
        the path's witness); a failure is a violation on the witness input, not an engine error"""
        if self.mode != "conc":
            return True
        occ = self.req_count.get(label, 0)
        self.req_count[label] = occ + 1
        ok = bool(cond)
        if not ok:
            self.failed_conc_only.append((label, occ, detail))
        return ok

    def fail(self, label, detail=None):
        """unconditional obligation failure on this path (e.g. wrong exception class)"""
        return self.require(False, label, detail=detail)

    def reach(self):
        """reachability marker: placed where the harness's main obligations start.  A harness none of whose
        completed paths ever gets here proves nothing (vacuous assumptions, early returns): the driver
        reports that as an engine error (the 'assert false must be reachable' twin, without a second run)"""
        self.notes["reached"] = True

    def observe(self, label, value):
        self.observations.append((label, value))

    # -- models ---------------------------------------------------------------------------------
    def model_inputs(self, model):
        out = {}
        for name, (kind, v) in self.inputs.items():
            val = model.eval(v, model_completion=True)
            if kind == "bool":
                out[name] = z3.is_true(val)
            elif kind == "int":
                out[name] = val.as_long()
            else:
                if self.model == "G4":
                    out[name] = Fraction(val.as_long(), 4)
                else:
                    out[name] = Fraction(val.numerator_as_long(), val.denominator_as_long())
        return out

    def eval_value(self, model, value):
        """evaluate an observation (proxy or plain) under a model -> python value"""
        if isinstance(value, SBool):
            return z3.is_true(model.eval(value.t, model_completion=True))
        if isinstance(value, SNum):
            val = model.eval(value.t, model_completion=True)
            if value.is_float and self.model == "G4":
                return Fraction(val.as_long(), 4)
            if z3.is_int_value(val):
                return val.as_long()
            if z3.is_rational_value(val):
                return Fraction(val.numerator_as_long(), val.denominator_as_long())
            if z3.is_algebraic_value(val):
                return Fraction(val.approx(20).numerator_as_long(),
                                val.approx(20).denominator_as_long())
            raise EngineError("cannot evaluate %r" % val)
        if isinstance(value, (list, tuple)):
            return type(value)(self.eval_value(model, v) for v in value)
        if isinstance(value, dict):
            return {k: self.eval_value(model, v) for k, v in value.items()}
        return value


def is_sym(x):
    return isinstance(x, (SNum, SBool, SSeq))


def activate(c):
    global _CTX
    _CTX = c


def deactivate():
    global _CTX
    _CTX = None


# ---------------------------------------------------------------------------------------------
def _norm(v):
    """normalise an observed value for comparison"""
    if isinstance(v, XF):
        return v.q
    if isinstance(v, bool) or v is None or isinstance(v, str):
        return v
    if isinstance(v, (int, Fraction)):
        return Fraction(v)
    if isinstance(v, float):
        if math.isinf(v) or math.isnan(v):
            return v
        return Fraction(v)
    if isinstance(v, (list, tuple)):
        return [_norm(x) for x in v]
    if isinstance(v, dict):
        return {k: _norm(x) for k, x in v.items()}
    return v


def _close(a, b, tol):
    if isinstance(a, Fraction) and isinstance(b, Fraction):
        if a == b:
            return True
        if not tol:
            return False
        return abs(a - b) <= tol * max(1, abs(a), abs(b))
    if isinstance(a, list) and isinstance(b, list):
        return len(a) == len(b) and all(_close(x, y, tol) for x, y in zip(a, b))
    if isinstance(a, dict) and isinstance(b, dict):
        return a.keys() == b.keys() and all(_close(a[k], b[k], tol) for k in a)
    return a == b


def _dyadic(q: Fraction):
    d = q.denominator
    return d & (d - 1) == 0 and d <= 2 ** 20 and abs(q.numerator) < 2 ** 50


def jsonable(v):
    if isinstance(v, XF):
        v = v.q
    if isinstance(v, Fraction):
        return int(v) if v.denominator == 1 else (float(v) if _dyadic(v) else "%d/%d" % (v.numerator, v.denominator))
    if isinstance(v, float) and math.isinf(v):
        return "inf" if v > 0 else "-inf"
    if isinstance(v, dict):
        return {str(k): jsonable(x) for k, x in v.items()}
    if isinstance(v, (list, tuple)):
        return [jsonable(x) for x in v]
    if isinstance(v, (int, float, str, bool)) or v is None:
        return v
    return repr(v)


def unjson_inputs(d):
    out = {}
    for k, v in d.items():
        if isinstance(v, str) and "/" in v:
            n, m = v.split("/")
            out[k] = Fraction(int(n), int(m))
        elif v == "inf":
            out[k] = INF
        elif v == "-inf":
            out[k] = -INF
        else:
            out[k] = v
    return out


def run_concrete(harness, params, inputs, model, exact=False):
    """run the harness natively on plain python numbers; -> Ctx (failed_conc, observations)"""
    c = Ctx(model=model, mode="conc", inputs=inputs, exact=exact)
    activate(c)
    try:
        try:
            harness(c, **params)
            c.notes["end"] = "ok"
        except PathAbort:
            c.notes["end"] = "abort"
        except CutPath:
            c.notes["end"] = "cut"
        except Exception as e:  # the real code raised where the harness expects no exception
            c.notes["end"] = "exception"
            c.failed_conc.append((UNEXPECTED % type(e).__name__, 0, str(e)[:200]))
    finally:
        deactivate()
    return c


class Result:
    def __init__(self):
        self.stats = Stats()
        self.violations = []  # dicts
        self.inconclusive = []
        self.engine_errors = []
        self.samples = []
        self.twin_reached = 0
        self.cuts = {}


def _is_known(harness, v):
    """does this violation match a listed known finding of the harness's property?"""
    try:
        import sys as _sys
        from . import core as _core
        mod = _sys.modules.get(getattr(harness, "__module__", ""))
        prop = getattr(mod, "PROPERTY", None)
        if prop is None:
            return False
        return _core.match_finding(prop, v, getattr(mod, "PREDICATES", {}) or {}, _core.load_findings()) is not None
    except Exception:
        return False


def explore(harness, params=None, model="R", seed=0, witness_every=1, max_paths=None,
            max_violations=8, twin=False, name=None, shard=None):
    """exhaustive DFS over the feasible paths of harness(ctx, **params)"""
    params = params or {}
    res = Result()
    st = res.stats
    worklist = [[]]
    n_done = 0
    vio_seen = {}
    deadline = time.time() + float(os.environ.get("VERIF_TASK_TIMEOUT", "2400" if os.environ.get("VERIF_TIER_RUNNING") == "thorough" else "600"))
    stopfile = os.environ.get("VERIF_STOPFILE")
    t_start = time.time()
    while worklist:
        if stopfile and time.time() - t_start > 60 and os.path.exists(stopfile + ".violation"):
            # the verdict of this check is already decided by a confirmed violation elsewhere; a shard that
            # has become slow (usually because the changed code made its queries hard) adds nothing to it
            res.stopped_early = "stopped after 60 s: a violation was already confirmed by another shard"
            break
        if stopfile and os.path.exists(stopfile):
            # another shard of this check already confirmed a run that never ends: every further path
            # costs a full time-out and adds nothing to the verdict
            res.stopped_early = "stopped: a fatal violation was confirmed by another shard"
            break
        if time.time() > deadline:
            res.engine_errors.append("shard time budget exhausted with %d prefixes left" % len(worklist))
            break
        prefix = worklist.pop()
        c = Ctx(model=model, prefix=prefix, seed=seed, twin=twin, stats=st)
        c.shard = shard
        activate(c)
        end = "ok"
        try:
            try:
                harness(c, **params)
                if shard is not None and shard[0] != 0 and len(c.decisions) < shard[2]:
                    end = "skip"  # shallow paths are accounted for by shard 0 only
            except ShardSkip:
                end = "skip"
            except PathAbort:
                end = "abort"
                st.aborted += 1
            except CutPath as e:
                end = "cut"
                st.cut += 1
                res.cuts[str(e)] = res.cuts.get(str(e), 0) + 1
            except Exception as e:
                # the real code raised on a feasible path where the harness expects no exception:
                # an obligation failure for every input on this path; witness = any model of the pc
                end = "exception"
                st.paths += 1
                st.obligations += 1
                st.nontrivial += 1
                r, m = c._check()
                if r == z3.sat:
                    c.violations.append(Violation(UNEXPECTED % type(e).__name__, 0,
                                                  c.model_inputs(m), str(e)[:200]))
                else:
                    res.engine_errors.append("exception %s: %s on a path without model" % (
                        type(e).__name__, e))
            except Unsupported as e:
                end = "unsupported"
                res.engine_errors.append("Unsupported: %s (prefix %s)" % (e, _pfx(c.decisions)))
            except EngineError as e:
                end = "engine"
                res.engine_errors.append("EngineError: %s" % e)
        finally:
            deactivate()
        worklist.extend(c.worklist)
        if end == "skip":
            continue
        if end == "ok":
            st.paths += 1
            n_done += 1
            if c.notes.get("reached"):
                res.twin_reached += 1
        # inconclusive obligations
        for lab, occ in c.inconclusive:
            res.inconclusive.append({"label": lab, "occurrence": occ, "params": jsonable(params)})
        # violations: replay concretely before believing them
        for v in c.violations:
            key = v.label
            vio_seen[key] = vio_seen.get(key, 0) + 1
            if vio_seen[key] > max_violations:
                continue
            res.violations.append(_confirm(harness, params, model, v))
        if stopfile and c.violations and any(v.get("status", "").startswith("confirmed") and not _is_known(harness, v)
                                             for v in res.violations):
            # only a violation that is NOT a listed known finding decides the verdict; a known finding must
            # never cut the exploration short (a different violation has to be reported still)
            try:
                open(stopfile + ".violation", "w").close()
            except OSError:
                pass
        # path witness: model of pc -> concrete re-run must agree on all observations
        if end == "ok" and witness_every and (n_done % witness_every == 0):
            _witness(harness, params, model, c, res)
        if c.notes.get("fatal") and any(v.get("status", "").startswith("confirmed") and not _is_known(harness, v)
                                        for v in res.violations):
            res.stopped_early = "stopped after the confirmed violation of %r (each further path would cost a full time-out)" % c.notes["fatal"]
            if stopfile:
                try:
                    open(stopfile, "w").close()
                except OSError:
                    pass
            break
        if max_paths and n_done >= max_paths:
            res.engine_errors.append("path budget %d exhausted" % max_paths)
            break
    return res


def _pfx(dec):
    return "".join("T" if d else "F" for d in dec)


def _confirm(harness, params, model, v: Violation):
    """replay a solver counterexample on plain python numbers"""
    inputs = v.inputs
    status = "unconfirmed"
    fails = []
    float_ok = all(_dyadic(x) for x in inputs.values() if isinstance(x, Fraction))
    tried = []
    for exact in ((False, True) if float_ok else (True,)):
        try:
            cc = run_concrete(harness, params, inputs, model, exact=exact)
            fails = [(l, o) for (l, o, _d) in cc.failed_conc + cc.failed_conc_only]
            tried.append("fraction" if exact else "float")
            if (v.label, v.occurrence) in fails or any(l == v.label for l, _ in fails):
                status = "confirmed-fraction" if exact else "confirmed"
                break
        except (Unsupported, EngineError) as e:
            status = "replay-error: %s" % e
        except Exception as e:  # the real code raised on the concrete input
            status = "replay-exception: %s: %s" % (type(e).__name__, e)
    return {
        "label": v.label, "occurrence": v.occurrence, "inputs": jsonable(inputs),
        "params": jsonable(params), "model": model, "status": status, "detail": jsonable(v.detail),
        "replayed_with": tried,
    }


def _witness(harness, params, model, c: Ctx, res: Result):
    activate(c)
    try:
        r, m = c._check()
    finally:
        deactivate()
    if r != z3.sat:
        return
    inputs = c.model_inputs(m)
    expected = [(lab, _norm(c.eval_value(m, val))) for lab, val in c.observations]
    sym_failed = {(v.label, v.occurrence) for v in c.violations}
    float_ok = all(_dyadic(x) for x in inputs.values() if isinstance(x, Fraction))
    outcome = None
    for exact in ((False, True) if float_ok else (True,)):
        try:
            cc = run_concrete(harness, params, inputs, model, exact=exact)
        except (Unsupported, EngineError) as e:
            outcome = "error: %s" % e
            continue
        except Exception as e:
            outcome = "exception in concrete run: %s: %s" % (type(e).__name__, e)
            continue
        got = [(lab, _norm(val)) for lab, val in cc.observations]
        extra_failed = [(l, o, d) for (l, o, d) in cc.failed_conc if (l, o) not in sym_failed]
        if (extra_failed or cc.failed_conc_only) and not exact:
            outcome = "float run failed an obligation; confirming with exact arithmetic"
            continue  # rounding must not raise an alarm: confirm with exact arithmetic first
        # the real code, on real python values, fails an obligation the symbolic run did not flag
        # (the proxy was a weaker stand-in than the real object): a concrete counterexample
        for lab, occ, det in cc.failed_conc_only + extra_failed:
            if not any(v["label"] == lab for v in res.violations):
                res.violations.append({
                    "label": lab, "occurrence": occ, "inputs": jsonable(inputs), "params": jsonable(params),
                    "model": model, "status": "confirmed", "detail": jsonable(det),
                    "replayed_with": ["fraction" if exact else "float"]})
        if extra_failed:
            outcome = "violation"
            break
        tol = Fraction(1, 10 ** 9) if not exact else Fraction(0)
        same = (
            (cc.notes.get("end") == "ok" or bool(extra_failed))
            and len(got) == len(expected)
            and all(a[0] == b[0] and _close(a[1], b[1], tol) for a, b in zip(expected, got))
            and ({(l, o) for (l, o, _d) in cc.failed_conc} <= sym_failed or bool(extra_failed))
        )
        if same:
            outcome = "ok" if not exact or not float_ok else "ok-rounding"
            break
        outcome = "mismatch: expected %s got %s end=%s conc_failed=%s" % (
            jsonable(expected)[:6], jsonable(got)[:6], cc.notes.get("end"), cc.failed_conc[:3])
    if outcome == "ok":
        res.stats.witness_ok += 1
    elif outcome == "ok-rounding":
        res.stats.witness_ok += 1
        res.stats.witness_rounding += 1
    elif outcome == "violation":
        res.stats.witness_ok += 1
    else:
        res.engine_errors.append("witness replay failed (%s) inputs=%s params=%s" % (
            outcome, jsonable(inputs), jsonable(params)))
    if len(res.samples) < 3:
        res.samples.append({
            "params": jsonable(params), "decisions": _pfx(c.decisions),
            "witness_inputs": jsonable(inputs),
            "observations": jsonable(expected)[:8], "replay": outcome,
        })
