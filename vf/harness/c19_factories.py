"""Factories that C19's configurations name by dotted path; every call is logged."""
LOG = []


class Built:
    def __init__(self, name, args, kwargs):
        self.name, self.args, self.kwargs = name, args, kwargs

    def __repr__(self):
        return "Built(%s, %r, %r)" % (self.name, self.args, self.kwargs)


def make(*args, **kwargs):
    LOG.append(("make", args, kwargs))
    return Built("make", args, kwargs)


class Widget(Built):
    def __init__(self, *args, **kwargs):
        LOG.append(("Widget", args, kwargs))
        super().__init__("Widget", args, kwargs)


class Box:
    class Inner:
        @staticmethod
        def build(*args, **kwargs):
            LOG.append(("Box.Inner.build", args, kwargs))
            return Built("Box.Inner.build", args, kwargs)


class Boom(Exception):
    pass


def explode(*args, **kwargs):
    LOG.append(("explode", args, kwargs))
    raise Boom("factory failed")
