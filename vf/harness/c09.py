"""C09 - periodic services act once per interval (Engine S; R; virtual clock = sleep stub)."""
import trio
import trio.testing

import cobald.composite.factory as factory_mod
import cobald.controller.linear as linear_mod
import cobald.controller.relative_supply as relative_mod
import cobald.controller.stepwise as stepwise_mod
import cobald.controller.switch as switch_mod
import cobald.decorator.buffer as buffer_mod
from cobald.composite.factory import FactoryPool
from cobald.controller.linear import LinearController
from cobald.controller.relative_supply import RelativeSupplyController
from cobald.controller.stepwise import Stepwise
from cobald.controller.switch import DemandSwitch
from cobald.decorator.buffer import Buffer

from ..core import Task
from ..symx import And, Implies, Not, Or
from .common import FakeTrio, RecPool, patched, same
from .c08 import Rule, Slave, _isinstance, _pool, _restate

PROPERTY = "C09"
MOD = __name__
FUNCTIONS = [
    "cobald.controller.linear:LinearController.run",
    "cobald.controller.linear:LinearController.regulate",
    "cobald.controller.relative_supply:RelativeSupplyController.run",
    "cobald.controller.relative_supply:RelativeSupplyController.regulate",
    "cobald.controller.stepwise:Stepwise.run",
    "cobald.controller.switch:DemandSwitch.run",
    "cobald.controller.switch:DemandSwitch.regulate",
    "cobald.decorator.buffer:Buffer.run",
    "cobald.decorator.buffer:Buffer.__init__",
    "cobald.composite.factory:FactoryPool.run",
]
MANIFEST = {
    "technique": "symbolic execution of each service's run() coroutine under a sleep stub (virtual clock); SMT decides step counts, sleep lengths and rate bounds",
    "text": "Bounded symbolic model checking of the run() coroutines of all six shipped periodic services, "
            "driven with coro.send() while trio.sleep is a stub that surfaces the requested delay as a "
            "virtual-time advance: interval/window, a fresh symbolic pool state per period, Buffer writes "
            "(0..2 per period, symbolic values) and run length k <= 3 (thorough 5) periods; z3 proves on "
            "every path that exactly one step happens per period, every sleep equals the interval, the "
            "LinearController rate bound holds over every window, Buffer forwards only at boundaries. Every path's witness is additionally run under the real trio scheduler with a virtual clock (MockClock).",
    "note": "the sleep stub IS the clock contract (suspends exactly d virtual seconds, only checkpoint); "
            "trio's real scheduler and clock drift are outside; floats are exact reals",
    "design_ref": "DESIGN.md §3 C09",
}
STUBS = ["trio (as seen from each service module) -> sleep yields ('sleep', d) to the driver",
         "isinstance in cobald.controller.switch accepts proxies",
         "hash of threshold proxies enabled inside RangeSelector._compile_lookup"]
ASSUMPTIONS = ["well-behaved pool: finite values, supply >= 0; interval/window > 0",
               "environment changes pool state only between steps (single trio thread)"]
OUTSIDE = ["trio's wall clock (the real scheduler with a virtual clock is exercised on every witness)",
           "time spent inside a regulation step", "IEEE rounding"]


def BOUNDS(tier):
    return {"periods": 3 if tier == "quick" else 5, "buffer_writes_per_period": "0..2"}


def _count(obj, name, log):
    real = getattr(obj, name)

    def wrapper(*a, **k):
        log.append((name, a))
        return real(*a, **k)

    setattr(obj, name, wrapper)


def _sleep_ok(ctx, y, ival, tag):
    ctx.require(isinstance(y, tuple) and y[0] == "sleep", tag + "suspends only in sleep")
    ctx.require(y[1] == ival, tag + "sleeps exactly one interval")


def _real_clock(ctx, svc, attrs, k, ival, first_at, what):
    """witness replays only: the same service under the REAL trio scheduler with a virtual clock
    (trio.testing.MockClock, autojump): the calls of `attrs` must happen at first_at, first_at + I, ..."""
    if ctx.mode != "conc":
        return

    interval = float(ival)
    times = []
    for attr in attrs:
        real = getattr(svc, attr)

        def wrapper(*a, _real=real, **kw):
            times.append(trio.current_time())
            return _real(*a, **kw)

        setattr(svc, attr, wrapper)
    t0 = []

    async def main():
        await trio.sleep(0.3 * interval + 3)  # services are not started at a multiple of their interval
        t0.append(trio.current_time())
        with trio.move_on_after((k - 0.5) * interval + (interval if first_at else 0)):
            await svc.run()

    try:
        trio.run(main, clock=trio.testing.MockClock(autojump_threshold=0))
    except Exception as e:
        ctx.require_concrete(False, "real trio clock: %s runs without raising (%s)" % (what, type(e).__name__))
        return
    rel = [t - t0[0] for t in times]
    want = [(j + (1 if first_at else 0)) * interval for j in range(k)]
    ctx.require_concrete(len(rel) == k and all(abs(a - b) <= 1e-9 * max(1.0, b) for a, b in zip(rel, want)),
                         "real trio clock: %s acts exactly once per interval" % what, detail={"times": rel, "want": want})


def linear(ctx, k):
    p = _pool(ctx)
    low, high, rate, ival = ctx.num("low"), ctx.num("high"), ctx.num("rate"), ctx.num("interval")
    ctx.assume(And(rate > 0, low <= high, ival > 0))
    c = LinearController(p, low_utilisation=low, high_allocation=high, rate=rate, interval=ival)
    log = []
    _count(c, "regulate", log)
    before, after = [], []
    with patched((linear_mod, "trio", FakeTrio(trio))):
        coro = c.run()
        try:
            for j in range(k):
                if j:
                    # environment: utilisation/allocation/supply move, demand is the controller's
                    p.supply, p.utilisation, p.allocation = (ctx.num("supply_%d" % j),
                                                             ctx.num("util_%d" % j), ctx.num("alloc_%d" % j))
                    ctx.assume(p.supply >= 0)
                before.append(p.demand)
                y = coro.send(None)
                after.append(p.demand)
                tag = "period%d: " % j
                _sleep_ok(ctx, y, ival, tag)
                ctx.require(len(log) == j + 1, tag + "exactly one regulation step per interval (first immediately)")
                if log[-1][1]:  # called without arguments, the step's effect is what counts: bounded below
                    ctx.require(same(log[-1][1][0], ival), tag + "regulate receives the interval")
                ctx.observe(tag + "demand", p.demand)
        finally:
            coro.close()
    ctx.reach()
    for i in range(k):
        for j in range(i, k):
            d = after[j] - before[i]
            bound = rate * ((j - i) * ival + ival)
            ctx.require(And(d <= bound, -d <= bound),
                        "window %d..%d: |change| <= rate*(span + interval)" % (i, j))
    if ctx.mode == "conc":
        p2 = RecPool(demand=0.0, supply=1.0, utilisation=0.0, allocation=0.0)
        _real_clock(ctx, LinearController(p2, low_utilisation=low, high_allocation=high, rate=rate, interval=float(ival)),
                    ["regulate"], k, ival, False, "LinearController")


def relative(ctx, k):
    p = _pool(ctx)
    low, high, ival = ctx.num("low"), ctx.num("high"), ctx.num("interval")
    ls, hs = ctx.num("low_scale"), ctx.num("high_scale")
    ctx.assume(And(low <= high, ls < 1, hs > 1, ival > 0))
    c = RelativeSupplyController(p, low_utilisation=low, high_allocation=high, low_scale=ls,
                                 high_scale=hs, interval=ival)
    log = []
    _count(c, "regulate", log)
    with patched((relative_mod, "trio", FakeTrio(trio))):
        coro = c.run()
        try:
            for j in range(k):
                if j:
                    _restate(ctx, p, "_%d" % j)
                n0 = len(p.writes)
                y = coro.send(None)
                tag = "period%d: " % j
                _sleep_ok(ctx, y, ival, tag)
                ctx.require(len(log) == j + 1, tag + "exactly one regulation step per interval (first immediately)")
                ctx.require(len(p.writes) == n0 + 1, tag + "one demand write per step")
                ctx.observe(tag + "demand", p.demand)
        finally:
            coro.close()
    ctx.reach()
    if ctx.mode == "conc":
        p2 = RecPool(demand=0.0, supply=1.0, utilisation=0.0, allocation=0.0)
        _real_clock(ctx, RelativeSupplyController(p2, low_utilisation=low, high_allocation=high, low_scale=ls,
                                                  high_scale=hs, interval=float(ival)),
                    ["regulate"], k, ival, False, "RelativeSupplyController")


def stepwise_default_interval(ctx, k):
    """a Stepwise built by calling the @stepwise skeleton with the pool only runs with the default interval"""
    from cobald.controller.stepwise import UnboundStepwise
    p = _pool(ctx)
    base = Rule("base", ctx.num("r_base"))
    ub = UnboundStepwise(base)
    t = ctx.num("t0")
    ctx.assume(t > 0)
    ctx.allow_hash = True
    ub.add(Rule("rule0", None), supply=t)
    c = ub(p)
    ctx.allow_hash = False
    with patched((stepwise_mod, "trio", FakeTrio(trio))):
        coro = c.run()
        try:
            for j in range(k):
                if j:
                    _restate(ctx, p, "_%d" % j)
                y = coro.send(None)
                tag = "period%d: " % j
                ctx.require(isinstance(y, tuple) and y[0] == "sleep", tag + "suspends only in sleep")
                ctx.require(not (y[1] is None) and y[1] == 1, tag + "sleeps the default interval of one second")
        finally:
            coro.close()
    ctx.reach()
    if ctx.mode == "conc":
        p2 = RecPool(demand=0.0, supply=1.0)
        calls = []
        ub2 = UnboundStepwise(lambda pool, interval: calls.append(interval))
        svc = ub2(p2)
        try:
            async def main():
                with trio.move_on_after(2.5):
                    await svc.run()
            trio.run(main, clock=trio.testing.MockClock(autojump_threshold=0))
            ctx.require_concrete(calls == [1, 1, 1], "real trio clock: default-interval Stepwise acts once per second",
                                 detail={"calls": calls})
        except Exception as e:
            ctx.require_concrete(False, "real trio clock: default-interval Stepwise runs without raising (%s)" % type(e).__name__)


def stepwise(ctx, k, nrules=1):
    p = _pool(ctx)
    ival = ctx.num("interval")
    ctx.assume(ival > 0)
    thresholds = [ctx.num("t%d" % i) for i in range(nrules)]
    for i, t in enumerate(thresholds):
        ctx.assume(t > 0)
        for u in thresholds[:i]:
            ctx.assume(Not(t == u))
    base = Rule("base", ctx.num("r_base"))
    rules = [Rule("rule%d" % i, None if i % 2 else ctx.num("r%d" % i)) for i in range(nrules)]
    ctx.allow_hash = True
    c = Stepwise(p, base, *zip(thresholds, rules), interval=ival)
    ctx.allow_hash = False
    with patched((stepwise_mod, "trio", FakeTrio(trio))):
        coro = c.run()
        try:
            for j in range(k):
                if j:
                    _restate(ctx, p, "_%d" % j)
                y = coro.send(None)
                tag = "period%d: " % j
                _sleep_ok(ctx, y, ival, tag)
                ncalls = sum(len(r.calls) for r in [base] + rules)
                ctx.require(ncalls == j + 1, tag + "exactly one rule application per interval (first immediately)")
        finally:
            coro.close()
    ctx.reach()


def switch(ctx, k, nslaves=1):
    p = _pool(ctx)
    ival = ctx.num("interval")
    ctx.assume(ival > 0)
    thresholds = [ctx.num("t%d" % i) for i in range(nslaves)]
    for i, t in enumerate(thresholds):
        for u in thresholds[:i]:
            ctx.assume(Not(t == u))
    default = Slave("default")
    slaves = [Slave("slave%d" % i) for i in range(nslaves)]
    args = []
    for t, s in zip(thresholds, slaves):
        args += [t, s]
    with patched((switch_mod, "isinstance", _isinstance), (switch_mod, "trio", FakeTrio(trio))):
        c = DemandSwitch(p, default, *args, interval=ival)
        coro = c.run()
        try:
            for j in range(k):
                if j:
                    _restate(ctx, p, "_%d" % j)
                y = coro.send(None)
                tag = "period%d: " % j
                _sleep_ok(ctx, y, ival, tag)
                calls = [iv for s in [default] + slaves for iv in s.calls]
                ctx.require(len(calls) == j + 1, tag + "exactly one delegated step per interval (first immediately)")
                ctx.require(all(same(iv, ival) for iv in calls), tag + "delegate receives the interval")
        finally:
            coro.close()
    ctx.reach()
    if ctx.mode == "conc":
        p2 = RecPool(demand=0.0, supply=1.0)
        _real_clock(ctx, DemandSwitch(p2, Slave("d"), interval=float(ival)), ["regulate"], k, ival, False, "DemandSwitch")


def switch_linear(ctx, k):
    """a DemandSwitch driving a real LinearController that was configured with an interval of its own:
    the rate bound holds for the interval at which steps actually happen, the switch's"""
    p = _pool(ctx)
    ival, own = ctx.num("interval"), ctx.num("slave_interval")
    low, high, rate = ctx.num("low"), ctx.num("high"), ctx.num("rate")
    ctx.assume(And(ival > 0, own > 0, rate > 0, low <= high))
    slave = LinearController(p, low_utilisation=low, high_allocation=high, rate=rate, interval=own)
    before, after = [], []
    with patched((switch_mod, "isinstance", _isinstance), (switch_mod, "trio", FakeTrio(trio))):
        c = DemandSwitch(p, slave, interval=ival)
        coro = c.run()
        try:
            for j in range(k):
                if j:
                    p.supply, p.utilisation, p.allocation = (ctx.num("supply_%d" % j),
                                                             ctx.num("util_%d" % j), ctx.num("alloc_%d" % j))
                    ctx.assume(p.supply >= 0)
                before.append(p.demand)
                y = coro.send(None)
                after.append(p.demand)
                _sleep_ok(ctx, y, ival, "period%d: " % j)
                ctx.observe("period%d: demand" % j, p.demand)
        finally:
            coro.close()
    ctx.reach()
    for i in range(k):
        for j in range(i, k):
            d = after[j] - before[i]
            bound = rate * ((j - i) * ival + ival)
            ctx.require(And(d <= bound, -d <= bound),
                        "window %d..%d: |change| <= rate*(span + interval) under a switch" % (i, j))


def buffer(ctx, k):
    p = _pool(ctx)
    window = ctx.num("window")
    ctx.assume(window > 0)
    b = Buffer(p, window=window)
    ctx.require(same(b.demand, p.demand), "buffer starts with the target's demand")
    n_init = len(p.writes)
    last = b.demand
    # a value written through the buffer before the service gets its first turn (e.g. by a controller's
    # immediate first step) must be forwarded at the first boundary, the start of the service
    if ctx.flag("write_before_start"):
        v = ctx.num("w_pre")
        b.demand = v
        last = v
        ctx.require(len(p.writes) == n_init, "nothing is forwarded before the service runs")
    with patched((buffer_mod, "trio", FakeTrio(trio))):
        coro = b.run()
        try:
            for j in range(k):
                tag = "boundary%d: " % j
                n0 = len(p.writes)
                y = coro.send(None)  # window boundary: flush, then sleep one window
                _sleep_ok(ctx, y, window, tag)
                ctx.require(p.demand == last, tag + "target's demand equals the value most recently written")
                ctx.require(len(p.writes) <= n0 + 1, tag + "at most one write per boundary")
                ctx.observe(tag + "target.demand", p.demand)
                # between boundaries: 0..2 writes through the buffer; nothing reaches the target
                nw = ctx.choice("writes_%d" % j, 3)
                n1 = len(p.writes)
                for w in range(nw):
                    v = ctx.num("w%d_%d" % (j, w))
                    b.demand = v
                    last = v
                    ctx.require(same(b.demand, v), tag + "buffer reads back the pending value")
                ctx.require(len(p.writes) == n1, tag + "nothing forwarded between window boundaries")
                ctx.require(same(b.supply, p.supply) and same(b.utilisation, p.utilisation)
                            and same(b.allocation, p.allocation), tag + "pass-through")
        finally:
            coro.close()
    ctx.reach()
    if ctx.mode == "conc":
        w = float(window)
        p2 = RecPool(demand=1.0)
        seen = []
        p2.on_write = lambda pool, v: seen.append((trio.current_time(), v))
        b2 = Buffer(p2, window=w)

        async def main():
            t0 = trio.current_time()
            async with trio.open_nursery() as n:
                n.start_soon(b2.run)
                await trio.sleep(0.3 * w)
                b2.demand = 5.0
                b2.demand = 6.0
                await trio.sleep(1.4 * w)  # t = 1.7 w
                b2.demand = 7.0
                await trio.sleep(0.8 * w)  # t = 2.5 w
                n.cancel_scope.cancel()
            return t0

        try:
            t0 = trio.run(main, clock=trio.testing.MockClock(autojump_threshold=0))
            rel = [(round((t - t0) / w, 6), v) for t, v in seen]
            ctx.require_concrete(rel == [(1.0, 6.0), (2.0, 7.0)],
                                 "real trio clock: Buffer forwards the latest value exactly at window boundaries",
                                 detail={"writes": rel})
        except Exception as e:
            ctx.require_concrete(False, "real trio clock: Buffer runs without raising (%s)" % type(e).__name__)


class _Kid(RecPool):
    """child with a deterministic hash: the iteration order of FactoryPool's sets (hence the order in which the
    symbolic comparisons are met, hence the path count) must not depend on addresses"""

    def __init__(self, idx, **kw):
        super().__init__(**kw)
        self.idx = idx

    def __hash__(self):
        return self.idx

    def __eq__(self, other):
        return self is other


def factory(ctx, k, n0=1):
    made = []

    def make():
        c = _Kid(10 + len(made), demand=ctx.num("fd%d" % len(made)), supply=0, utilisation=1.0, allocation=1.0,
                 name="spawn%d" % len(made))
        ctx.assume(c.demand > 0)
        if len(made) >= 2:
            ctx.cut("more than two spawns in one scenario")
        made.append(c)
        return c

    kids = []
    for i in range(n0):
        c = _Kid(i, demand=ctx.num("d%d" % i), supply=ctx.num("s%d" % i), utilisation=ctx.num("u%d" % i),
                 name="kid%d" % i)
        ctx.assume(And(c.demand >= 0, c.supply >= 0, c.utilisation >= 0))
        kids.append(c)
    ival = ctx.num("interval")
    ctx.assume(ival > 0)
    f = FactoryPool(*kids, factory=make, interval=ival)
    log = []
    _count(f, "_shrink", log)
    _count(f, "_grow", log)
    with patched((factory_mod, "trio", FakeTrio(trio))):
        coro = f.run()
        try:
            for j in range(k):
                tag = "period%d: " % j
                y = coro.send(None)
                _sleep_ok(ctx, y, ival, tag)
                ctx.require(len(log) == j, tag + "exactly one adjustment per elapsed interval (none before the first)")
                # environment: a new request arrives during the interval
                d = ctx.num("request_%d" % j)
                ctx.assume(d >= 0)
                f.demand = d
                ctx.require(len(log) == j, tag + "a demand write alone adjusts nothing")
        finally:
            coro.close()
    ctx.reach()
    if ctx.mode == "conc":
        spawned = []

        def make2():
            c = RecPool(demand=1.0, supply=0.0)
            spawned.append(c)
            return c

        f2 = FactoryPool(factory=make2, interval=float(ival))
        f2.demand = 2.0
        _real_clock(ctx, f2, ["_grow", "_shrink"], k, ival, True, "FactoryPool")
    _ = kids, made  # keep strong references: the mortuary is a WeakSet


def tasks(tier, seed):
    k = 3 if tier == "quick" else 5
    out = [
        Task(MOD, "linear", dict(k=k), weight=50),
        Task(MOD, "linear", dict(k=2)),
        Task(MOD, "relative", dict(k=k), weight=20),
        Task(MOD, "stepwise", dict(k=k, nrules=1), weight=10),
        Task(MOD, "stepwise_default_interval", dict(k=min(k, 3)), weight=5),
        Task(MOD, "stepwise", dict(k=min(k, 3), nrules=2), weight=10),
        Task(MOD, "switch", dict(k=k, nslaves=1), weight=10),
        Task(MOD, "switch", dict(k=min(k, 3), nslaves=2), weight=10),
        Task(MOD, "switch_linear", dict(k=min(k, 3)), weight=20),
        Task(MOD, "buffer", dict(k=k), weight=30),
        Task(MOD, "factory", dict(k=min(k, 3), n0=1), weight=30),
        Task(MOD, "factory", dict(k=2, n0=2), weight=30),
    ]
    return out


PREDICATES = {}
