"""Recording pipeline elements that C05's configurations name (as !Tag plugins and by dotted name)."""
from cobald.daemon.plugins import yaml_tag
from cobald.interfaces import Controller, PoolDecorator

from .common import RecPool

LOG = []


class Boom(Exception):
    pass


#: what a failing constructor raises (set by the harness): constructor errors come in every class
FAIL_WITH = [Boom]


def _log(self, target, kwargs):
    LOG.append((self, target, dict(kwargs)))


class Ctl(Controller):
    """head element: a controller"""

    def __init__(self, target, a=0, b=0, *, k=None):
        super().__init__(target)
        _log(self, target, {"a": a, "b": b, "k": k})


class Deco(PoolDecorator):
    def __init__(self, target, a=0, b=0, *, k=None):
        super().__init__(target)
        _log(self, target, {"a": a, "b": b, "k": k})


@yaml_tag(eager=True)
class EagerDeco(PoolDecorator):
    def __init__(self, target, a=0, b=0, *, k=None):
        super().__init__(target)
        _log(self, target, {"a": a, "b": b, "k": k})


class BoomDeco(PoolDecorator):
    def __init__(self, target, a=0, b=0, *, k=None):
        super().__init__(target)
        _log(self, target, {"a": a, "b": b, "k": k})
        raise FAIL_WITH[0]("constructor failed")


class BoomCtl(Controller):
    def __init__(self, target, a=0, b=0, *, k=None):
        super().__init__(target)
        _log(self, target, {"a": a, "b": b, "k": k})
        raise FAIL_WITH[0]("constructor failed")


class ThePool(RecPool):
    def __init__(self, a=0, b=0, *, k=None):
        super().__init__()
        _log(self, None, {"a": a, "b": b, "k": k})


class EmptyPool(ThePool):
    """a container-like pool that is currently empty (falsy), but a pool all the same"""

    def __len__(self):
        return 0


class BoomPool(RecPool):
    def __init__(self, a=0, b=0, *, k=None):
        super().__init__()
        _log(self, None, {"a": a, "b": b, "k": k})
        raise FAIL_WITH[0]("constructor failed")


PLUGINS = {c.__name__: c for c in (Ctl, Deco, EagerDeco, BoomDeco, BoomCtl, ThePool, BoomPool, EmptyPool)}


# -- argument-valued plugins ---------------------------------------------------------------------------
import copy  # noqa: E402

ARGLOG = []


class Arg:
    """an argument value built by a factory / tag; remembers what it saw when it was called"""

    def __init__(self, *args, **kwargs):
        self.args, self.kwargs = args, kwargs
        try:
            self.snapshot = copy.deepcopy((args, kwargs))
        except Exception:
            self.snapshot = None
        ARGLOG.append(self)


def make_arg(*args, **kwargs):
    return Arg(*args, **kwargs)


@yaml_tag(eager=True)
class EagerArg(Arg):
    pass


class LazyArg(Arg):
    pass


PLUGINS.update({"EagerArg": EagerArg, "LazyArg": LazyArg})
