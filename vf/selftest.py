"""Developer command (not a registered check): seeded-defect smoke test.

Each mutation is applied to /repo's working tree, the property's quick check is run and must exit 1
with a VIOLATION line, then the file is restored.  ./verif selftest [ID ...]
"""
import os
import subprocess
import sys
import time

REPO = "/repo/src/cobald/"
ROOT = os.path.dirname(os.path.dirname(os.path.abspath(__file__)))

from .mutations import MUTATIONS


def main(argv):
    if argv and argv[0] == "ops":
        from . import optest
        return optest.main()
    want = set(argv)
    bad = 0
    for name, prop, rel, old, new in MUTATIONS:
        if want and prop not in want and name not in want:
            continue
        path = REPO + rel
        src = open(path).read()
        if old not in src:
            print("SKIP %-28s pattern not found" % name)
            bad += 1
            continue
        t0 = time.time()
        try:
            open(path, "w").write(src.replace(old, new, 1))
            r = subprocess.run([os.path.join(ROOT, "verif"), "check", prop, "quick"],
                               capture_output=True, text=True,
                               env=dict(os.environ, VERIF_NO_EVIDENCE="1"))
        finally:
            open(path, "w").write(src)
        caught = r.returncode == 1 and "VIOLATION property=%s" % prop in r.stdout
        first = next((l for l in r.stdout.splitlines() if l.startswith("  harness=")), "")
        print("%s %-28s exit=%d %.0fs %s" % ("CAUGHT" if caught else "MISSED", name, r.returncode,
                                            time.time() - t0, first[:150]))
        if not caught:
            bad += 1
            print(r.stdout[-600:], r.stderr[-600:])
    subprocess.run(["git", "-C", "/repo", "status", "--short"])
    return 1 if bad else 0
