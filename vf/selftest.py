"""Developer command (not a registered check): seeded-defect smoke test.

Each mutation is applied to /repo's working tree, the property's quick check is run and must exit 1
with a VIOLATION line, then the file is restored.  ./verif selftest [ID ...]
"""
import os
import subprocess
import sys
import time

REPO = "/repo/src/cobald/"
ROOT = os.path.dirname(os.path.dirname(os.path.abspath(__file__)))

MUTATIONS = [
    # (name, property, file, old, new)
    ("c06-no-second-clamp", "C06", "decorator/standardiser.py",
     "by_limits = _clamp(self.minimum, by_supply, self.maximum)", "by_limits = by_supply"),
    ("c06-getter-strict", "C06", "decorator/standardiser.py",
     ">= self.granularity:", "> self.granularity:"),
    ("c06-floor-after-clamp", "C06", "decorator/standardiser.py",
     "self.target.demand = self._clamp_demand(_floor(value, self.granularity))",
     "self.target.demand = _floor(self._clamp_demand(value), self.granularity)"),
    ("c06-revert-fix", "C06", "decorator/standardiser.py",
     "return typed if typed == by_limits else by_limits", "return typed"),
    ("c07-childcount", "C07", "composite/weighted.py",
     "pool.demand = value * getattr(pool, self._weight) / self._total_weight",
     "pool.demand = value * getattr(pool, self._weight) / (self._total_weight or child_count)"),
    ("c07-fallback-swapped", "C07", "composite/weighted.py",
     "return 0.0 if self.supply > 0 else 1.0", "return 0.0 if self.supply >= 0 else 1.0"),
    ("c07-uniform-mean", "C07", "composite/uniform.py",
     "return sum(child.allocation for child in self.children) / len(self.children)",
     "return sum(child.allocation for child in self.children) / max(len(self.children), 2)"),
    ("c08-linear-le", "C08", "controller/linear.py",
     "if self.target.utilisation < self.low_utilisation:", "if self.target.utilisation <= self.low_utilisation:"),
    ("c08-getrule-lt", "C08", "controller/stepwise.py",
     "if low <= supply < high:", "if low < supply <= high:"),
    ("c08-switch-lt", "C08", "controller/switch.py",
     "if demand <= self.target.demand:", "if demand < self.target.demand:"),
    ("c08-relative-else", "C08", "controller/relative_supply.py",
     "        else:\n            self.target.demand = self.target.supply\n", "        else:\n            pass\n"),
    ("c09-linear-sleep-first", "C09", "controller/linear.py",
     "            self.regulate(self.interval)\n            await trio.sleep(self.interval)",
     "            await trio.sleep(self.interval)\n            self.regulate(self.interval)"),
    ("c09-buffer-half-window", "C09", "decorator/buffer.py",
     "await trio.sleep(self.window)", "await trio.sleep(self.window / 2)"),
    ("c09-buffer-eager", "C09", "decorator/buffer.py",
     "    demand = 0.0\n", "    demand = 0.0\n\n    def __setattr__(self, k, v):\n        object.__setattr__(self, k, v)\n        if k == 'demand' and 'window' in self.__dict__ and v == 0:\n            self.target.demand = v\n"),
    ("c09-switch-revert", "C09", "controller/switch.py",
     "self.regulate(self.interval)", "self.regulate_demand(self.interval)"),
    ("c09-factory-double", "C09", "composite/factory.py",
     "            else:\n                self._grow(target=demand)",
     "            else:\n                self._grow(target=demand)\n                self._reap_children()\n                self._shrink(target=demand)"),
    ("c15-shrink-lt", "C15", "composite/factory.py",
     "if child.demand <= excess_demand:", "if child.demand < excess_demand:"),
    ("c15-grow-ge", "C15", "composite/factory.py",
     "while missing_demand > 0:", "while missing_demand >= 0:"),
    ("c15-no-reap-after-grow", "C15", "composite/factory.py",
     "            missing_demand -= new_child.demand\n        self._reap_children()",
     "            missing_demand -= new_child.demand"),
    ("c15-release-keeps-demand", "C15", "composite/factory.py",
     "        child.demand = 0\n        self._hatchery.discard(child)", "        self._hatchery.discard(child)"),
    ("c15-util-all-children", "C15", "composite/factory.py",
     "    def utilisation(self):\n        active_children = [child for child in self.children if child.supply > 0]",
     "    def utilisation(self):\n        active_children = [child for child in self.children if child.supply >= 0]"),
    ("c15-grow-counts-hatchery-only", "C15", "composite/factory.py",
     "missing_demand = target - sum(child.demand for child in self.children)",
     "missing_demand = target - sum(child.demand for child in self._hatchery if child.supply > 0)"),
    ("c14-unknown-after-digest", "C14", "daemon/config/mapping.py",
     "    unmatched = config_data.keys() - {plugin.section for plugin in plugins}\n    if unmatched:\n        raise ConfigurationError(\n            where=\"root\", what=\"unknown config sections %s\" % \", \".join(unmatched)\n        )\n    content = {}",
     "    unmatched = config_data.keys() - {plugin.section for plugin in plugins}\n    content = {}"),
    ("c14-before-as-after", "C14", "daemon/core/config.py",
     "                dependencies[before].add(plugin.section)",
     "                dependencies[plugin.section].add(before)"),
    ("c14-required-ignored-when-decorated", "C14", "daemon/config/mapping.py",
     "            if plugin.required:", "            if plugin.required and not plugin.before:"),
    ("c14-falsy-result-dropped", "C14", "daemon/config/mapping.py",
     "            if plugin_content is not None:", "            if plugin_content:"),
    ("c16-logger-after-write", "C16", "decorator/logger.py",
     "        self.target.demand = value\n\n    @property\n    def name",
     "\n    @property\n    def name"),
    ("c16-logger-logs-new-demand", "C16", "decorator/logger.py",
     '"demand": self.target.demand,', '"demand": value,'),
    ("c16-proxy-alloc-util", "C16", "interfaces/_proxy.py",
     "        return self.target.allocation", "        return self.target.utilisation"),
    ("c16-logger-skip-equal", "C16", "decorator/logger.py",
     "        self._logger.log(\n            self.level,", "        if value != self.target.demand: self._logger.log(\n            self.level,"),
    ("c19-list-forward", "C19", "daemon/config/mapping.py",
     "                            for index, item in reversed(list(enumerate(structure)))",
     "                            for index, item in reversed(list(reversed(list(enumerate(structure)))))"),
    ("c19-where-parent", "C19", "daemon/config/mapping.py",
     "            raise ConfigurationError(where=where, what=err) from err",
     "            raise ConfigurationError(where=where.rpartition('.')[0], what=err) from err"),
    ("c19-args-as-kw", "C19", "daemon/config/mapping.py",
     '        args = mapping.pop("__args__", [])', '        args = mapping.get("__args__", [])'),
    ("c19-where-overwritten", "C19", "daemon/config/mapping.py",
     "            if err.where is None:\n                raise ConfigurationError(what=err.what, where=where) from err\n            raise",
     "            raise ConfigurationError(what=err.what, where=where) from err"),
    ("c04-construct-args-order", "C04", "interfaces/_partial.py",
     "        return self.ctor(*args, *self.args, **kwargs, **self.kwargs)",
     "        return self.ctor(*args, *reversed(self.args), **kwargs, **self.kwargs)"),
    ("c04-bind-drops-middle", "C04", "interfaces/_partial.py",
     "            for owner in reversed(self.targets[:-1]):", "            for owner in reversed(self.targets[1:-1]):"),
    ("c04-curry-kw-override", "C04", "interfaces/_partial.py",
     "            self.ctor, *self.args, *args, __leaf__=self.leaf, **self.kwargs, **kwargs",
     "            self.ctor, *self.args, *args, __leaf__=self.leaf, **{**self.kwargs, **kwargs}"),
    ("c04-revert-fix", "C04", "daemon/runners/service.py",
     "        __new_service__.__signature__ = inspect.signature(\n            raw_cls.__init__ if __new__ is object.__new__ else __new__\n        )\n",
     ""),
    ("c04-leaf-curry-loses-leaf", "C04", "interfaces/_partial.py",
     "            self.ctor, *self.args, *args, __leaf__=self.leaf,", "            self.ctor, *self.args, *args, __leaf__=self.leaf and not args,"),
]


def main(argv):
    want = set(argv)
    bad = 0
    for name, prop, rel, old, new in MUTATIONS:
        if want and prop not in want and name not in want:
            continue
        path = REPO + rel
        src = open(path).read()
        if old not in src:
            print("SKIP %-28s pattern not found" % name)
            bad += 1
            continue
        t0 = time.time()
        try:
            open(path, "w").write(src.replace(old, new, 1))
            r = subprocess.run([os.path.join(ROOT, "verif"), "check", prop, "quick"],
                               capture_output=True, text=True,
                               env=dict(os.environ, VERIF_NO_EVIDENCE="1"))
        finally:
            open(path, "w").write(src)
        caught = r.returncode == 1 and "VIOLATION property=%s" % prop in r.stdout
        first = next((l for l in r.stdout.splitlines() if l.startswith("  harness=")), "")
        print("%s %-28s exit=%d %.0fs %s" % ("CAUGHT" if caught else "MISSED", name, r.returncode,
                                            time.time() - t0, first[:150]))
        if not caught:
            bad += 1
            print(r.stdout[-600:], r.stderr[-600:])
    subprocess.run(["git", "-C", "/repo", "status", "--short"])
    return 1 if bad else 0
