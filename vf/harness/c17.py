"""C17 - monitoring output is well-formed and lossless.

(a) escaping: Engine X (CrossHair over z3 sequences) on escape_key / escape_field / line_protocol
(b) formatter structure and timestamps: Engine S, line_protocol replaced by a recorder in symbolic runs;
    every path's witness goes through the REAL line_protocol and an independent reference parser
(c) JSON merge order: Engine S with json.dumps replaced by a recorder; witness through real json
"""
import importlib.util
import json
import logging
import os
import time
from collections.abc import Mapping

import cobald.monitor.format_json as fj_mod
import cobald.monitor.format_line as fl_mod
from cobald.monitor.format_json import RECORD_ATTRIBUTES, JsonFormatter
from cobald.monitor.format_line import LineProtocolFormatter

from .. import core, xh
from ..core import Task
from ..symx import And, Implies, Not, Or, is_sym
from .common import patched, same

PROPERTY = "C17"
MOD = __name__
XH_FILE = os.path.join(core.ROOT, "xh", "c17_line.py")
FUNCTIONS = [
    "cobald.monitor.format_line:escape_key",
    "cobald.monitor.format_line:escape_field",
    "cobald.monitor.format_line:line_protocol",
    "cobald.monitor.format_line:LineProtocolFormatter.__init__",
    "cobald.monitor.format_line:LineProtocolFormatter.format",
    "cobald.monitor.format_json:JsonFormatter.__init__",
    "cobald.monitor.format_json:JsonFormatter.format",
]
MANIFEST = {
    "engine": "crosshair",
    "technique": "CrossHair symbolic execution (z3 sequence theory) of the escaping code against grammar-based reference decoders; z3-backed symbolic execution of the formatters' tag/field/timestamp logic",
    "text": "Escaping: for every unicode string up to the stated length (name <= 3, key / tag value / string field <= 4, "
            "tag value + string field <= 2 each; quick: one less) CrossHair proves ('Confirmed over all paths') that "
            "the text produced by escape_key / escape_field / line_protocol decodes, with a decoder written from the "
            "InfluxDB grammar, to exactly the input, and that the surrounding separators are untouched; non-string "
            "field values are embedded verbatim for every text over the numeric alphabet. Formatter structure: tag "
            "whitelist / defaults / attribute blacklist split, None rejection and timestamps (t <= created < t + "
            "resolution, t multiple of resolution) for symbolic record times and values under every collision pattern of "
            "a finite key alphabet; each path's witness is rendered by the real line_protocol and re-parsed. JSON: merge "
            "order defaults < time < message < data under every key-collision pattern.",
    "note": "string length bounds as stated; dict KEYS come from a finite alphabet of special-character strings (hashing "
            "realises symbolic strings in CrossHair), key TEXT is symbolic in the escape_key kernel; only 'Confirmed' "
            "counts, 'Not confirmed' is reported inconclusive; nanosecond rendering '%d' % (t*1e9) is exact for integer "
            "seconds < 2**32 by a mantissa-width argument (noted, not solver-proved)",
    "design_ref": "DESIGN.md §3 C17",
}
STUBS = [
    "line_protocol (as seen from LineProtocolFormatter.format) -> recorder in symbolic runs, the real one in witness replays",
    "json.dumps (as seen from cobald.monitor.format_json) -> recorder in symbolic runs, the real one in witness replays",
    "formatTime on the LineProtocolFormatter instance -> constant text when record.created is symbolic",
]
ASSUMPTIONS = [
    "excluded as the property says: line breaks, trailing backslash in names/keys/tag values, '%' in the name, keys "
    "colliding with LogRecord attribute names",
    "floats are exact reals in the timestamp arithmetic",
]
OUTSIDE = ["strings longer than the stated bounds", "float repr of symbolic reals", "IEEE rounding of created // resolution",
           "symbolic dictionary keys"]


def BOUNDS(tier):
    d = 1 if tier == "quick" else 0
    return {"name": 3 - d, "key_kernel": 4 - d, "tag_value": 4 - d, "string_field": 4 - d, "pair": 2 - d if d == 0 else 1,
            "numeric_text": 5 - d, "resolutions": [None, 1, 10, 60, "symbolic int (model Z)"]}


# -- (a) Engine X -------------------------------------------------------------------------------------
CONDITIONS = [
    # (function, timeout quick, timeout thorough, expectation)
    ("_key_kernel", 120, 400, "confirm"),
    ("_field_kernel", 120, 300, "confirm"),
    ("_field_nonstring", 30, 60, "confirm"),
    ("_name_roundtrip", 120, 300, "confirm"),
    ("_tag_value_roundtrip", 150, 400, "confirm"),
    ("_string_field_roundtrip", 150, 400, "confirm"),
    ("_pair_roundtrip", 150, 500, "confirm"),
    ("_numeric_field_verbatim", 60, 200, "confirm"),
    ("_bool_field", 30, 60, "confirm"),
    ("_timestamp_omitted_or_last", 60, 200, "confirm"),
    ("_single_line", 90, 200, "confirm"),
    ("_twin_key_kernel", 60, 60, "refute"),
    ("_twin_string_field", 60, 60, "refute"),
]


def _xh_module():
    spec = importlib.util.spec_from_file_location("c17_line_replay", XH_FILE)
    m = importlib.util.module_from_spec(spec)
    spec.loader.exec_module(m)
    return m


def run_xh(tier):
    env = {"C17_SHRINK": "1" if tier == "quick" else "0"}
    conds = [(fn, tq if tier == "quick" else tt) for fn, tq, tt, _ in CONDITIONS]
    results = xh.run_conditions(XH_FILE, conds, env=env)
    expect = {fn: e for fn, _, _, e in CONDITIONS}
    violations, inconclusive, errors, rows = [], [], [], []
    os.environ["C17_SHRINK"] = env["C17_SHRINK"]
    mod = _xh_module()
    for r in results:
        fn, verdict = r["fn"], r["verdict"]
        row = {"condition": fn, "verdict": verdict, "wall_s": round(r["wall"], 1), "expect": expect[fn]}
        if verdict == "counterexample":
            row["counterexample"] = r["detail"][:200]
        rows.append(row)
        if expect[fn] == "refute":
            if verdict != "counterexample":
                errors.append("reachability twin %s was not refuted (%s): vacuous pre-condition?" % (fn, verdict))
            continue
        if verdict == "confirmed":
            continue
        if verdict == "counterexample":
            name, args = xh.parse_call(r["detail"])
            ok = None
            try:
                ok = eval("mod.%s(%s)" % (name, args), {"mod": mod})  # replay on plain python strings
            except Exception as e:
                ok = "raised %s: %s" % (type(e).__name__, e)
            status = "confirmed" if ok is not True else "not reproduced"
            violations.append({"harness": "crosshair:" + fn, "label": "round trip / well-formedness (%s)" % fn,
                               "inputs": {"call": "%s(%s)" % (name, args), "returned": repr(ok)}, "params": {"tier": tier},
                               "status": status, "kind": "custom", "module": MOD, "property": PROPERTY})
        elif verdict == "inconclusive":
            inconclusive.append({"label": fn, "detail": r["detail"]})
        else:
            errors.append("crosshair failed on %s: %s" % (fn, r["detail"][-300:]))
    return rows, violations, inconclusive, errors


# -- reference parser of the line protocol (independent of cobald) -------------------------------------
def _ident(s, i, special, stops):
    out = []
    while i < len(s):
        c = s[i]
        if c == "\\" and i + 1 < len(s) and s[i + 1] in special:
            out.append(s[i + 1])
            i += 2
            continue
        if c in stops:
            break
        out.append(c)
        i += 1
    return "".join(out), i


def _string(s, i):
    assert s[i] == '"'
    i += 1
    out = []
    while True:
        c = s[i]
        if c == "\\" and s[i + 1] in '"\\':
            out.append(s[i + 1])
            i += 2
            continue
        if c == '"':
            return "".join(out), i + 1
        out.append(c)
        i += 1


def parse_line(line):
    assert line.endswith("\n") and "\n" not in line[:-1], "one newline-terminated line"
    s, i = line[:-1], 0
    name, i = _ident(s, i, ", ", ", ")
    tags = {}
    while i < len(s) and s[i] == ",":
        k, i = _ident(s, i + 1, ",= ", ",= ")
        assert s[i] == "=", "tag key must be followed by ="
        v, i = _ident(s, i + 1, ",= ", ",= ")
        tags[k] = v
    assert s[i] == " ", "tags end with a space"
    i += 1
    fields = {}
    while i < len(s) and s[i] != " ":
        k, i = _ident(s, i, ",= ", ",= ")
        assert s[i] == "=", "field key must be followed by ="
        i += 1
        if s[i] == '"':
            v, i = _string(s, i)
        else:
            j = i
            while j < len(s) and s[j] not in ", ":
                j += 1
            raw, i = s[i:j], j
            v = {"True": True, "False": False}.get(raw, None)
            if v is None:
                try:
                    v = int(raw)
                except ValueError:
                    v = float(raw)
        fields[k] = v
        if i < len(s) and s[i] == ",":
            i += 1
    ts = None
    if i < len(s):
        assert s[i] == " "
        ts = int(s[i + 1:])
    return name, tags, fields, ts


# -- (b) formatter structure, Engine S -----------------------------------------------------------------
STRINGS = ["plain", "sp ace", "com,ma", "eq=ual", 'quo"te', "back\\slash", "apo'strophe", "uni✓\U0001F680", ""]
TAG_STRINGS = [s for s in STRINGS if s and not s.endswith("\\")] + ["back\\slash,mid"]
# key alphabet: (key, role)
KEYS = [("wl,2 x=", "whitelisted"), ("dflt", "default"), ("fld", "field"), ("f ld=2,", "field"), ("created", "attribute")]
NAMES = ["measurement", "na me,with", 'qu"o=te', "uni⚡"]


def line_formatter(ctx, cfg, resolution):
    """cfg: 0 = no tags, 1 = whitelist set, 2 = defaults mapping (also a whitelist)"""
    wl_keys = [k for k, r in KEYS if r == "whitelisted"]
    pick = [0]  # string contents only matter to the concrete layer: rotate through the alphabets

    def text(pool):
        pick[0] += 1
        return pool[(pick[0] * 7 + salt) % len(pool)]

    salt = cfg * 3 + (resolution if isinstance(resolution, int) else 5)
    if cfg == 0:
        tags_param, whitelist, defaults = None, set(), {}
    elif cfg == 1:
        tags_param, whitelist, defaults = set(wl_keys), set(wl_keys), {}
    else:
        dv = text(TAG_STRINGS) if not ctx.flag("default_is_int") else ctx.num("default_int", "int")
        defaults = {"dflt": dv, wl_keys[0]: "wl-default"}
        tags_param, whitelist = dict(defaults), set(defaults)
    if resolution == "sym":
        res = ctx.num("resolution", "int")
        ctx.assume(res > 0)
    else:
        res = resolution
    # another formatter with another tag configuration lives in the same process: instances share nothing
    LineProtocolFormatter({"fld", "f ld=2,", "dflt"}, resolution=1)
    fmt = LineProtocolFormatter(tags_param, resolution=res)
    payload = {}
    for key, role in KEYS:
        if not ctx.flag("has_" + key):
            continue
        is_tag = key in whitelist
        kind = ctx.choice("kind_" + key, 3 if not is_tag else 2)  # string / int / bool(field only)
        if kind == 0:
            salt += len(payload)
            payload[key] = text(TAG_STRINGS if is_tag else STRINGS)
        elif kind == 1:
            payload[key] = ctx.num("int_" + key, "int")
        else:
            payload[key] = ctx.flag("bool_" + key)
    name = NAMES[(salt + len(payload)) % len(NAMES)]
    created = ctx.num("created", "int" if ctx.model == "Z" else "float")
    ctx.assume(created >= 0)
    rec = logging.LogRecord("verif.monitor", logging.INFO, "file.py", 1, name, (payload,) if payload else ({},), None)
    rec.created = created
    captured = {}

    def recorder(name, tags=None, fields=None, timestamp=None):
        captured.update(name=name, tags=tags, fields=fields, timestamp=timestamp)
        return "<line>"

    fmt.formatTime = lambda record, datefmt=None: "<time>"
    payload_before = dict(payload)
    if ctx.mode == "conc":
        try:
            out = fmt.format(rec)
        except Exception as e:  # only the real line_protocol can fail here: the split itself is replayed below
            out = None
            ctx.require_concrete(False, "line: the record is rendered without error (%s)" % type(e).__name__,
                                 detail={"tags": repr(payload), "defaults": repr(defaults)})
        with patched((fl_mod, "line_protocol", recorder)):
            fmt.format(rec)
    else:
        with patched((fl_mod, "line_protocol", recorder)):
            out = fmt.format(rec)
    ctx.reach()
    ctx.require(list(payload) == list(payload_before) and all(payload[k] is payload_before[k] for k in payload),
                "formatting leaves the record's data untouched (other handlers see the same record)")
    first_capture = dict(captured)
    with patched((fl_mod, "line_protocol", recorder)):
        fmt.format(rec)
    ctx.require(sorted(captured["tags"]) == sorted(first_capture["tags"]) and sorted(captured["fields"]) == sorted(first_capture["fields"]),
                "formatting the same record twice gives the same tags and fields")
    # oracle, from the statement
    exp_tags = dict(defaults)
    exp_tags.update({k: v for k, v in payload.items() if k in whitelist})
    exp_fields = {k: v for k, v in payload.items() if k not in whitelist and k not in RECORD_ATTRIBUTES}
    ctx.observe("tag_keys", sorted(captured["tags"]))
    ctx.observe("field_keys", sorted(captured["fields"]))
    ctx.require(captured["name"] == name, "the measurement name is the record message")
    ctx.require(sorted(captured["tags"]) == sorted(exp_tags) and all(same(captured["tags"][k], v) or captured["tags"][k] is v or (not is_sym(v) and captured["tags"][k] == v) for k, v in exp_tags.items()),
                "tags are the whitelisted keys and the defaults, record values overriding defaults")
    ctx.require(sorted(captured["fields"]) == sorted(exp_fields) and all(same(captured["fields"][k], v) or captured["fields"][k] is v for k, v in exp_fields.items()),
                "fields are the remaining keys with their values")
    t = captured["timestamp"]
    if res is None:
        ctx.require(t is None, "the timestamp is omitted without a resolution")
    else:
        ctx.observe("timestamp", t)
        ctx.require(And(t <= created, created < t + res), "timestamp is the record time rounded down to the resolution")
        # t is a multiple of the resolution: t / res is an integer  <=>  floor(t / res) * res == t
        if ctx.model == "Z":
            ctx.require(t // res * res == t, "timestamp is a multiple of the resolution")
        else:  # a second floor quotient over a real is the mixed int/real wall: decided in Z, replayed here
            ctx.require_concrete(t // res * res == t, "timestamp is a multiple of the resolution")
    # concrete layer: the real line_protocol output, re-parsed by the reference parser
    if ctx.mode == "conc" and out is not None:
        try:
            pname, ptags, pfields, pts = parse_line(out)
            ctx.require_concrete(pname == name, "line: measurement name decodes to the record message")
            ctx.require_concrete(ptags == {k: (v if isinstance(v, str) else str(int(v))) for k, v in exp_tags.items()},
                                 "line: tags decode to the expected tags, non-string values rendered as text",
                                 detail={"line": out})
            want = {k: (v if isinstance(v, (str, bool)) else int(v)) for k, v in exp_fields.items()}
            ctx.require_concrete(pfields == want and all(type(pfields[k]) is type(want[k]) for k in want),
                                 "line: fields decode to the expected values and types", detail={"line": out})
            ctx.require_concrete(pts == (None if res is None else int(t) * 10 ** 9) and (res is None or int(t) == t),
                                 "line: timestamp decodes to the downsampled time in nanoseconds", detail={"line": out})
        except Exception as e:
            ctx.require_concrete(False, "line: output is one well-formed line (%s)" % type(e).__name__,
                                 detail={"line": out, "error": str(e)})


def line_rejects_none(ctx, cfg):
    tags_param = [None, {"wl"}, {"wl": "d"}][cfg]
    fmt = LineProtocolFormatter(tags_param)
    payload = {"a": ctx.num("a", "int")}
    key = ["wl", "fld"][ctx.choice("which", 2)]
    payload[key] = None
    rec = logging.LogRecord("verif.monitor", logging.INFO, "file.py", 1, "m", (payload,), None)
    try:
        fmt.format(rec)
        raised = False
    except AssertionError:
        raised = True
    ctx.reach()
    ctx.require(raised, "None values are rejected")


# -- (c) JSON ------------------------------------------------------------------------------------------
JKEYS = ["time", "message", "shared", "private"]


def json_formatter(ctx, datefmt_kind):
    datefmt = [None, "", "%Y"][datefmt_kind]
    defaults = {}
    for k in JKEYS:
        if ctx.flag("default_has_" + k):
            defaults[k if k != "private" else "private_d"] = ctx.num("d_" + k, "int")
    payload = {}
    for k in JKEYS:
        if ctx.flag("record_has_" + k):
            payload[k if k != "private" else "private_r"] = ctx.num("r_" + k, "int")
    # JSON-serialisable data need not have string keys: json renders int keys as text
    int_key = ctx.flag("record_has_int_key")
    if int_key:
        payload[7] = ctx.num("r_int_key", "int")
    use_defaults = defaults if defaults or ctx.flag("empty_mapping_not_none") else None
    fmt = JsonFormatter(use_defaults, datefmt=datefmt)
    rec = logging.LogRecord("verif.monitor", logging.INFO, "file.py", 1, "the message", (payload,) if payload else ({},), None)
    rec.created = 1234567890.25
    captured = {}

    class FakeJson:
        @staticmethod
        def dumps(data, *a, **k):
            captured["data"] = dict(data)
            if k.get("sort_keys"):
                sorted(data)  # what the real encoder does: raises TypeError on keys of mixed types
            return "<json>"

    if ctx.mode == "conc":
        text = fmt.format(rec)
        data = json.loads(text)
        captured["data"] = data
    else:
        with patched((fj_mod, "json", FakeJson)):
            text = fmt.format(rec)
        data = captured["data"]
    ctx.reach()
    expected = dict(defaults)
    if datefmt_kind != 1:
        expected["time"] = fmt.formatTime(rec, datefmt)
    expected["message"] = "the message"
    expected.update(payload)
    if int_key and ctx.mode == "conc":  # decoded from the real JSON text
        expected["7"] = expected.pop(7)
    ctx.observe("keys", sorted(map(str, data)))
    ctx.require(sorted(map(str, data)) == sorted(map(str, expected)), "the JSON object has exactly the keys of defaults, time, message and data")
    ok = True
    for k, v in expected.items():
        g = data.get(k)
        ok = ok and (same(g, v) or g is v or (not is_sym(v) and not is_sym(g) and g == v))
    ctx.require(ok, "later sources override earlier ones: defaults < time < message < record data")
    if ctx.mode == "conc":
        ctx.require_concrete(isinstance(data, dict) and "\n" not in text, "json: a single JSON object")
    # a second record through the SAME formatter, half a second later: nothing may be carried over
    rec2 = logging.LogRecord("verif.monitor", logging.INFO, "file.py", 1, "second message", ({"only": 1},), None)
    rec2.created = rec.created + 0.5
    rec2.msecs = 750.0
    rec.msecs = 250.0
    reference = logging.Formatter(datefmt=datefmt if datefmt else None)
    second = json.loads(fmt.format(rec2)) if ctx.mode == "conc" else None
    if ctx.mode == "conc":
        want2 = dict(json.loads(json.dumps({k: int(v) for k, v in defaults.items()})))
        if datefmt_kind != 1:
            want2["time"] = reference.formatTime(rec2, datefmt if datefmt else None)
        want2["message"] = "second message"
        want2["only"] = 1
        ctx.require_concrete(second == want2, "json: every record carries its own time, message and data",
                             detail={"got": second, "want": want2})
    ctx.require(not defaults or all(same(defaults[k], v) for k, v in list(defaults.items())), "defaults are not modified")


def json_rejects_bad_defaults(ctx):
    n = ctx.num("n", "int")
    ctx.reach()
    try:
        JsonFormatter([("a", n)])
        raised = False
    except TypeError:
        raised = True
    ctx.require(raised, "non-mapping defaults are rejected")


def tasks(tier, seed):
    out = []
    for cfg in range(3):
        for res in (None, 1, 10, 60):
            out.append(Task(MOD, "line_formatter", dict(cfg=cfg, resolution=res), model="R", shards=16, weight=200,
                            witness_every=5 if tier == "quick" else 2))
        for res in ("sym", 10):
            out.append(Task(MOD, "line_formatter", dict(cfg=cfg, resolution=res), model="Z", shards=16, weight=200,
                            witness_every=11 if tier == "quick" else 5, name="line_formatter_integer_time"))
        out.append(Task(MOD, "line_rejects_none", dict(cfg=cfg), model="Z"))
    for k in range(3):
        out.append(Task(MOD, "json_formatter", dict(datefmt_kind=k), model="Z", weight=20, shards=2))
    out.append(Task(MOD, "json_rejects_bad_defaults", model="Z"))
    return out


def run(tier, seed):
    t0 = time.time()
    import concurrent.futures as cf
    with cf.ThreadPoolExecutor(max_workers=1) as ex:
        fut = ex.submit(run_xh, tier)  # CrossHair processes run while Engine S works
        code_s, cov, assumptions, s_vio, s_err, s_inc, preds = _run_symx(tier, seed)
        rows, x_vio, x_inc, x_err = fut.result()
    cov["crosshair_conditions"] = rows
    cov["crosshair_confirmed"] = sum(1 for r in rows if r["verdict"] == "confirmed")
    cov["crosshair_inconclusive"] = [r["condition"] for r in rows if r["verdict"] == "inconclusive"]
    cov["obligations"] += len([r for r in rows if r["expect"] == "confirm"])
    cov["discharged"] += cov["crosshair_confirmed"]
    cov["inconclusive"] = cov.get("inconclusive", 0) + len(x_inc)
    return core.finish(PROPERTY, tier, seed, "model_checking", cov, assumptions, t0, s_vio + x_vio, s_err + x_err,
                       s_inc + x_inc, preds)


def _run_symx(tier, seed):
    """the Engine S part, collected without finishing (so that both engines share one evidence file)"""
    import sys
    holder = {}
    orig = core.finish

    def grab(prop, tier_, seed_, level, coverage, assumptions, t0, violations, engine_errors, inconclusive, predicates):
        holder.update(cov=coverage, assumptions=assumptions, vio=violations, err=engine_errors, inc=inconclusive,
                      preds=predicates)
        return 0

    core.finish = grab
    try:
        core.run_symx_check(sys.modules[__name__], tier, seed)
    finally:
        core.finish = orig
    return 0, holder["cov"], holder["assumptions"], holder["vio"], holder["err"], holder["inc"], holder["preds"]


def replay(v):
    mod = _xh_module()
    call = v["inputs"]["call"]
    ok = eval("mod." + call, {"mod": mod})
    print("%s -> %r" % (call, ok))
    print("REPRODUCED" if ok is not True else "not reproduced on this tree")
    return 0 if ok is True else 1


PREDICATES = {}
