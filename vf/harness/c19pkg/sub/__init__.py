from ...c19_factories import LOG, Built


def deep(*args, **kwargs):
    LOG.append(("deep", args, kwargs))
    return Built("deep", args, kwargs)
