#!/bin/sh
# Build the overlay virtualenv for the verification machinery (offline).
#   setup.sh            -> (re)create /verif/.venv unconditionally if broken, else keep
#   setup.sh --ensure   -> same, quiet when already usable
set -e
HERE="$(cd "$(dirname "$0")" && pwd)"
VENV="$HERE/.venv"
PY="$VENV/bin/python"
export PIP_NO_INDEX=1 PIP_DISABLE_PIP_VERSION_CHECK=1
ok() { [ -x "$PY" ] && "$PY" -c 'import z3, crosshair, yaml, trio, cobald' >/dev/null 2>&1; }
if ok; then [ "$1" = "--ensure" ] || echo "venv ok: $VENV"; exit 0; fi
# serialise concurrent --ensure calls
exec 9>"$HERE/.venv.lock"
flock 9
if ok; then exit 0; fi
rm -rf "$VENV"
/venv/bin/python -m venv "$VENV"
SP="$("$PY" -c 'import sysconfig; print(sysconfig.get_paths()["purelib"])')"
printf '%s\n%s\n' /venv/lib/python3.12/site-packages /repo/src > "$SP/_verif_overlay.pth"
"$PY" -m pip install -q --no-index --find-links /opt/veriftools/wheels crosshair-tool z3-solver >/dev/null
ok || { echo "setup failed: overlay venv unusable" >&2; exit 2; }
[ "$1" = "--ensure" ] || echo "venv built: $VENV"
