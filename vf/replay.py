"""Re-run a recorded counterexample on the current tree without any solver."""
import importlib
import json

from . import symx


def main(path):
    with open(path) as f:
        v = json.load(f)
    if v.get("kind") == "custom":
        mod = importlib.import_module(v["module"])
        return mod.replay(v)
    mod = importlib.import_module(v["module"])
    h = getattr(mod, v["fn"])
    inputs = symx.unjson_inputs(v["inputs"])
    out = 0
    for exact in (False, True):
        c = symx.run_concrete(h, v.get("params") or {}, inputs, v.get("model", "R"), exact=exact)
        fails = [l for (l, o, d) in c.failed_conc + c.failed_conc_only]
        print("replay (%s): failed obligations: %s" % ("fractions" if exact else "floats", fails))
        if v["label"] in fails:
            out = 1
    print("REPRODUCED" if out else "not reproduced on this tree")
    return out
