"""C10 - execute hands the payload's outcome to the caller and leaves the runtime alone (PARTIAL; Engine S,
real runtime).  Symbolic: the returned object (value families incl. None), the exception class and argument,
the argument values; scenario parameters: target flavour and calling context."""
import asyncio
import threading
import time

import trio

from ..core import Task
from . import rt
from .common import same

PROPERTY = "C10"
MOD = __name__
FUNCTIONS = [
    "cobald.daemon.runners.service:ServiceRunner.execute",
    "cobald.daemon.runners.meta_runner:MetaRunner.run_payload",
    "cobald.daemon.runners.asyncio_runner:AsyncioRunner.run_payload",
    "cobald.daemon.runners.trio_runner:TrioRunner.run_payload",
    "cobald.daemon.runners.thread_runner:ThreadRunner.run_payload",
]
MANIFEST = {
    "technique": "symbolic execution of the real multi-threaded runtime on symbolic execute() outcomes and arguments; identity of what the caller receives is checked",
    "text": "PARTIAL claim: for every scenario of a fixed list (target flavour x calling context: outside thread, thread "
            "payload, coroutine payload of a different flavour), on ONE OS schedule each, and for ALL values of the "
            "symbolic inputs (returned object from the int / float / bool / str / list / tuple families or None, "
            "Exception class from a catalogue with a symbolic argument, 0..2 positional and keyword arguments with "
            "symbolic values, sequences of up to 3 execute calls): the payload ran exactly once with the very argument "
            "objects in its flavour's own thread/loop, the caller got the very object / the very exception, the runtime "
            "still reports running, bystander heartbeats of every flavour still advance and a further execute succeeds. Next to the solver-decided claim, ENUMERATED real-runtime scenarios (nested execute, six overlapping callers, the same payload with equal-but-distinct arguments) are run concretely and reported as such.",
    "note": "NOT claimed: interleavings/timing; same-flavour execute from inside a coroutine (excluded by the statement); "
            "keyword names colliding with execute's own parameters (payload, flavour)",
    "design_ref": "DESIGN.md §4 C10",
}
STUBS = []
ASSUMPTIONS = ["one OS schedule per scenario", "an execute call that has not returned after 12 s never returns"]
OUTSIDE = ["interleavings and timing", "keyword names 'payload' / 'flavour' / 'self'"]

FLAV = ("asyncio", "trio", "threading")
FAMILIES = ("none", "int", "float", "bool", "str", "list", "tuple", "exception_instance")


class UserError(Exception):
    pass


EXCEPTIONS = [Exception, KeyError, OSError, UserError, TimeoutError, StopAsyncIteration, ArithmeticError, StopIteration]
KW = [(), ("k",), ("timeout", "name")]


def BOUNDS(tier):
    return {"calls": "1..3", "return_families": FAMILIES, "exception_classes": [e.__name__ for e in EXCEPTIONS],
            "positionals": "0..2", "keywords": [list(k) for k in KW]}


def _outcome(ctx, sfx):
    k = ctx.choice("outcome" + sfx, len(FAMILIES) + len(EXCEPTIONS))
    if k < len(FAMILIES):
        fam = FAMILIES[k]
        if fam == "none":
            v = None
        elif fam in ("int", "float"):
            v = ctx.num("value" + sfx, fam)
        elif fam == "bool":
            v = ctx.boolvalue("value" + sfx)
        elif fam == "exception_instance":
            v = KeyError(ctx.num("value" + sfx, "int"))  # e.g. a 'last error seen' getter: returned, not raised
        else:
            v = ctx.seq("length" + sfx, fam)
        return "return", fam, v
    cls = EXCEPTIONS[k - len(FAMILIES)]
    return "raise", cls, cls(ctx.num("arg" + sfx, "int"))


def _flavour_context():
    info = {"thread": threading.get_ident()}
    try:
        info["asyncio_task"] = asyncio.current_task() is not None
    except RuntimeError:
        info["asyncio_task"] = False
    try:
        trio.lowlevel.current_task()
        info["trio_task"] = True
    except RuntimeError:
        info["trio_task"] = False
    return info


def execute(ctx, flavour, caller, ncalls, fixed_kw=None):
    """caller: 'outside' or the flavour of the payload that calls execute (different from `flavour`)"""
    w = rt.World(accept_delay=0.02)
    runner = w.runner
    F = rt.FLAVOURS[flavour]
    calls = []  # what each executed payload saw
    plan = []
    for i in range(ncalls):
        what, detail, obj = _outcome(ctx, "_%d" % i)
        # the argument shape is symbolic for the first call; later calls of a sequence vary their outcome only
        arity = ctx.choice("arity_%d" % i, 3, fixed=None if i == 0 else (i % 3))
        kws = KW[ctx.choice("kw_%d" % i, len(KW), fixed=fixed_kw if i == 0 else (i + 1) % 3)]
        args = tuple(ctx.num("c%d_a%d" % (i, j), "int") for j in range(arity))
        kwargs = {k: ctx.num("c%d_%s" % (i, k), "int") for k in kws}
        plan.append((what, detail, obj, args, kwargs))
    beats = {f: [] for f in FLAV}
    results = []
    done = threading.Event()

    def make(i):
        what, detail, obj, args, kwargs = plan[i]

        def body(*a, **k):
            calls.append((i, a, k, _flavour_context()))
            if what == "raise":
                raise obj
            return obj

        if flavour == "threading":
            def payload(*a, **k):
                return body(*a, **k)
        else:
            async def payload(*a, **k):
                return body(*a, **k)
        return payload

    def do_calls():
        for i, (what, detail, obj, args, kwargs) in enumerate(plan):
            try:
                r = runner.execute(make(i), *args, flavour=F, **kwargs)
                results.append(("return", r))
            except BaseException as e:  # noqa: B036
                results.append(("raise", e))
        done.set()

    stop = w.stop_flag
    try:
        for f in FLAV:
            runner.adopt(w.bystander(f, beats[f]), flavour=rt.FLAVOURS[f])
        if caller != "outside":
            if caller == "threading":
                def outer():
                    do_calls()
                    while not stop.is_set():
                        time.sleep(0.01)
            elif caller == "asyncio":
                async def outer():
                    do_calls()
                    while not stop.is_set():
                        await asyncio.sleep(0.01)
            else:
                async def outer():
                    do_calls()
                    while not stop.is_set():
                        await trio.sleep(0.01)
        w.start()
        ok = w.wait_running()
        ctx.require(ok, "the runtime reports running", fatal=True)
        if caller == "outside":
            t = threading.Thread(target=do_calls, daemon=True)
            t.start()
        else:
            runner.adopt(outer, flavour=rt.FLAVOURS[caller])
        finished = done.wait(rt.BOUND)
        ctx.require(finished, "every execute call returns or raises (it never blocks forever)", fatal=True)
        still_running = runner.running.is_set() and w.thread.is_alive()
        marks = {f: len(beats[f]) for f in FLAV}
        t_wait = time.time()
        progressed = {f: False for f in FLAV}
        while time.time() - t_wait < 5.0 and not all(progressed.values()):  # generous: a loaded machine is not a violation
            time.sleep(0.05)
            progressed = {f: len(beats[f]) > marks[f] for f in FLAV}
        # a further execute still works
        extra = None
        if finished and still_running:
            token = object()
            if flavour == "threading":
                def probe():
                    return token
            else:
                async def probe():
                    return token
            o, th = rt.blocking(lambda: runner.execute(probe, flavour=F), bound=rt.BOUND)
            extra = o.kind == "return" and o.value is token
        alive_after = w.thread.is_alive()
    finally:
        w.cleanup()
    ctx.reach()
    ctx.observe("results", [k for k, _ in results])
    ctx.require(len(results) == len(plan), "one outcome per execute call")
    for i, ((what, detail, obj, args, kwargs), res) in enumerate(zip(plan, results)):
        tag = "call%d: " % i
        kind, got = res
        if what == "return":
            ctx.require(kind == "return", tag + "a returned object is handed to the caller")
            ctx.require(kind == "return" and (got is obj), tag + "the caller receives the very object the payload returned")
        elif detail is StopIteration and flavour != "threading":
            # a coroutine cannot let StopIteration escape: the language replaces it by RuntimeError (PEP 479)
            ctx.require(kind == "raise" and isinstance(got, RuntimeError) and obj in rt.flatten(got),
                        tag + "StopIteration from a coroutine reaches the caller as the RuntimeError the language makes of it")
        else:
            ctx.require(kind == "raise", tag + "an exception is raised in the caller")
            ctx.require(kind == "raise" and type(got) is detail, tag + "the caller sees an exception of the class the payload raised")
            ctx.require(kind == "raise" and got is obj, tag + "the caller receives the very exception the payload raised")
        mine = [c for c in calls if c[0] == i]
        ctx.require(len(mine) == 1, tag + "the payload ran exactly once")
        if len(mine) == 1:
            _, a, k, c = mine[0]
            ctx.require(len(a) == len(args) and all(same(x, y) for x, y in zip(a, args))
                        and sorted(k) == sorted(kwargs) and all(same(k[n], kwargs[n]) for n in kwargs),
                        tag + "the payload received exactly the arguments supplied")
            if flavour == "asyncio":
                ctx.require(c["asyncio_task"], tag + "an asyncio payload runs in the asyncio loop")
            elif flavour == "trio":
                ctx.require(c["trio_task"], tag + "a trio payload runs in the trio loop")
    ctx.require(still_running and alive_after, "neither outcome counts as a background failure: the runtime keeps running")
    ctx.require(all(progressed.values()), "bystander payloads of every flavour keep running")
    ctx.require(extra is True, "a further execute succeeds")


def _asyncio_timeout_identity(inputs, params):
    """asyncio's future bridge re-creates TimeoutError instances (stdlib _convert_future_exc)"""
    if params.get("flavour") != "asyncio":
        return False
    idx = len(FAMILIES) + EXCEPTIONS.index(TimeoutError)
    return any(k.startswith("outcome_") and v == idx for k, v in inputs.items())


PREDICATES = {"asyncio_timeouterror_identity": _asyncio_timeout_identity}


def _overlapping(flavour, n=6):
    """enumerated, concrete: n callers in n threads execute payloads that finish in reverse order of their start;
    each caller must get its own payload's outcome.  -> list of problems"""
    w = rt.World(accept_delay=0.02)
    runner = w.runner
    F = rt.FLAVOURS[flavour]
    problems, results = [], {}
    tokens = [object() for _ in range(n)]
    errors = [UserError(i) for i in range(n)]

    def make(i):
        delay = 0.03 * (n - i)
        if flavour == "threading":
            def payload():
                time.sleep(delay)
                if i % 2:
                    raise errors[i]
                return tokens[i]
        elif flavour == "asyncio":
            async def payload():
                await asyncio.sleep(delay)
                if i % 2:
                    raise errors[i]
                return tokens[i]
        else:
            async def payload():
                await trio.sleep(delay)
                if i % 2:
                    raise errors[i]
                return tokens[i]
        return payload

    def call(i):
        try:
            results[i] = ("return", runner.execute(make(i), flavour=F))
        except BaseException as e:  # noqa: B036
            results[i] = ("raise", e)

    try:
        w.start()
        if not w.wait_running():
            return ["runner never reported running"]
        threads = [threading.Thread(target=call, args=(i,), daemon=True) for i in range(n)]
        for t in threads:
            t.start()
            time.sleep(0.005)
        for t in threads:
            t.join(rt.BOUND)
        if any(t.is_alive() for t in threads):
            problems.append("an overlapping execute call never returned")
        for i in range(n):
            want = ("raise", errors[i]) if i % 2 else ("return", tokens[i])
            got = results.get(i)
            if got is None or got[0] != want[0] or got[1] is not want[1]:
                problems.append("caller %d expected %s of its own payload but got %r" % (i, want[0], got))
                break
        if not (runner.running.is_set() and w.thread.is_alive()):
            problems.append("the runtime stopped running")
    finally:
        try:
            w.cleanup()
        except Exception as e:
            problems.append("cleanup failed: %s" % e)
    return problems


def _nested(outer, inner):
    """enumerated, concrete: an outside thread executes a payload of flavour `outer` which itself executes a
    payload of the different flavour `inner`; both calls must hand back their payload's object"""
    w = rt.World(accept_delay=0.02)
    runner = w.runner
    problems = []
    token = object()

    if inner == "threading":
        def innermost():
            return token
    else:
        async def innermost():
            return token

    def body():
        return runner.execute(innermost, flavour=rt.FLAVOURS[inner])

    if outer == "threading":
        def outermost():
            return body()
    else:
        async def outermost():
            return body()
    try:
        w.start()
        if not w.wait_running():
            return ["runner never reported running"]
        o, t = rt.blocking(lambda: runner.execute(outermost, flavour=rt.FLAVOURS[outer]), bound=rt.BOUND)
        if o.kind != "return" or o.value is not token:
            problems.append("nested execute %s > %s: expected the inner payload's object, got %s %r" % (outer, inner, o.kind, o.exc or o.value))
        if not (runner.running.is_set() and w.thread.is_alive()):
            problems.append("the runtime stopped running")
    finally:
        try:
            w.cleanup()
        except Exception as e:
            problems.append("cleanup failed: %s" % e)
    return problems


def _equal_arguments(flavour):
    """enumerated, concrete: the same payload executed again with arguments that are equal but not the same
    objects (1, 1.0, True; equal tuples) receives exactly the objects of THAT call"""
    w = rt.World(accept_delay=0.02)
    runner = w.runner
    problems = []
    seen = []
    if flavour == "threading":
        def payload(*a, **k):
            seen.append((a, k))
            return a
    else:
        async def payload(*a, **k):
            seen.append((a, k))
            return a
    calls = [((1,), {}), ((1.0,), {}), ((True,), {}), (((1, 2),), {"scale": 2}), (((1, 2),), {"scale": 2.0}), ((0,), {}), ((False,), {}), ((0.0,), {})]
    calls = [(tuple(x if not isinstance(x, tuple) else tuple(list(x)) for x in a), k) for a, k in calls]
    try:
        w.start()
        if not w.wait_running():
            return ["runner never reported running"]
        for a, k in calls:
            o, t = rt.blocking(lambda: runner.execute(payload, *a, flavour=rt.FLAVOURS[flavour], **k), bound=rt.BOUND)
            if o.kind != "return":
                problems.append("execute%r did not return (%s %r)" % (a, o.kind, o.exc))
                break
            got_a, got_k = seen[-1]
            if not (len(got_a) == len(a) and all(x is y for x, y in zip(got_a, a)) and all(got_k[n] is k[n] for n in k)):
                problems.append("execute(payload, %r, %r): the payload received %r %r (equal, but not the objects supplied)" % (a, k, got_a, got_k))
                break
    finally:
        try:
            w.cleanup()
        except Exception as e:
            problems.append("cleanup failed: %s" % e)
    return problems


def extra(tier, seed):
    violations = []
    for f in FLAV:
        problems = _equal_arguments(f)
        for msg in problems[:1]:
            violations.append({"harness": "equal_arguments", "label": "a repeated execute receives exactly the arguments of that call (enumerated scenario)",
                               "inputs": {"flavour": f, "problem": msg}, "params": {}, "status": "confirmed", "kind": "custom",
                               "module": MOD, "property": PROPERTY})
    for outer in FLAV:
        for inner in FLAV:
            if outer == inner and outer != "threading":
                continue
            problems = _nested(outer, inner)
            if problems:
                problems = _nested(outer, inner)
            for msg in problems[:1]:
                violations.append({"harness": "nested_execute", "label": "an executed payload may itself execute a payload of another flavour (enumerated scenario)",
                                   "inputs": {"outer": outer, "inner": inner, "problem": msg}, "params": {}, "status": "confirmed",
                                   "kind": "custom", "module": MOD, "property": PROPERTY})
            if problems and any("cleanup" in x for x in problems):
                break
    for f in FLAV:
        problems = _overlapping(f)
        if problems:
            problems = _overlapping(f)
        for msg in problems[:1]:
            violations.append({"harness": "overlapping_execute", "label": "overlapping execute calls each get their own outcome (enumerated scenario)",
                               "inputs": {"flavour": f, "problem": msg}, "params": {}, "status": "confirmed", "kind": "custom",
                               "module": MOD, "property": PROPERTY})
    return {"violations": violations, "enumerated_overlap_scenarios": ["6 overlapping execute calls, flavour %s" % f for f in FLAV],
            "enumerated_note": "concrete real-runtime scenarios on one OS schedule each: NOT solver-decided"}


def replay(v):
    if v.get("harness") == "equal_arguments":
        problems = _equal_arguments(v["inputs"]["flavour"])
        print(problems)
        return 1 if problems else 0
    problems = _nested(v["inputs"]["outer"], v["inputs"]["inner"]) if v.get("harness") == "nested_execute" else _overlapping(v["inputs"]["flavour"])
    print(problems)
    print("REPRODUCED" if problems else "not reproduced on this tree")
    return 1 if problems else 0


def tasks(tier, seed):
    out = []
    wit = 3 if tier == "quick" else 1
    n = 0
    for flavour in FLAV:
        for caller in ("outside",) + FLAV:
            if caller == flavour and flavour != "threading":
                continue  # same-flavour execute from inside a coroutine is excluded by the statement
            n += 1
            out.append(Task(MOD, "execute", dict(flavour=flavour, caller=caller, ncalls=1,
                                                 fixed_kw=(n % 3 if tier == "quick" else None)), model="R", weight=10,
                            shards=8, witness_every=wit))
            if tier == "thorough" and caller in ("outside", "threading"):
                out.append(Task(MOD, "execute", dict(flavour=flavour, caller=caller, ncalls=2), model="R", weight=100,
                                shards=64, witness_every=7, name="execute_sequence"))
    return out
