"""C06 - Standardiser keeps the forwarded demand within its limits (Engine S; Z, R, G4)."""
import itertools
import math

from cobald.decorator.standardiser import Standardiser
from cobald.decorator.limiter import Limiter
from cobald.decorator.coarser import Coarser

from ..core import Task
from ..symx import INF, And, Implies, Not, Or, is_sym
from .common import RecPool, numeric_stubs, same
import cobald.decorator.standardiser as _std_mod

# int() / float() / math.floor / math.ceil as seen from the modules under test act on proxies (stubs, listed in evidence)
for _m in (_std_mod,):
    for _mod, _name, _val in numeric_stubs(_m):
        setattr(_mod, _name, _val)

PROPERTY = "C06"
MOD = __name__
FUNCTIONS = [
    "cobald.decorator.standardiser:_clamp",
    "cobald.decorator.standardiser:_floor",
    "cobald.decorator.standardiser:Standardiser.demand",
    "cobald.decorator.standardiser:Standardiser._clamp_demand",
    "cobald.decorator.standardiser:Standardiser.__init__",
    "cobald.interfaces._proxy:PoolDecorator.supply",
    "cobald.interfaces._proxy:PoolDecorator.utilisation",
    "cobald.interfaces._proxy:PoolDecorator.allocation",
    "cobald.utility:enforce",
]
MANIFEST = {
    "technique": "symbolic execution of Standardiser on z3 Int/Real proxies; SMT decides every path and obligation",
    "text": "Bounded symbolic model checking of the real Standardiser code: for each of the 324 type "
            "configurations of (demand, supply, minimum, maximum, backlog, surplus) x granularity in "
            "{1,2,3,(7, symbolic)} (and, for the all-float configurations, the fractional granularities 0.5 / 0.25, 0.5, 1.5) every feasible path of __init__/setter/getter is enumerated by z3 and "
            "the limit / window / floor / read-back obligations are proved for ALL numeric values on the "
            "path (unsat of the negation); histories of 2-3 operations and the increment law likewise. "
            "Bounded in structure (history length, granularity set), unbounded in the numeric values. Enumerated next to it (concrete, reported as such): nan rejection by type and 32 states with non-finite supply.",
    "note": "floats are exact reals (R) or the 1/4 grid (G4), no IEEE rounding; z3 is trusted; proxies are "
            "validated by concrete witness replays of every sampled path on plain python numbers",
    "design_ref": "DESIGN.md §3 C06",
}
STUBS = ["int / float / math.floor / math.ceil (as seen from the modules under test) accept number proxies"]
ASSUMPTIONS = [
    "constructor contract: minimum <= maximum, granularity > 0, surplus > 0, backlog > 0 "
    "(rejection of everything else is an obligation of its own)",
    "pool model: supply >= 0 finite (one_write_infinite_supply: +inf with a finite backlog), demand finite; minimum != +inf, maximum != -inf",
    "floats are exact reals (model R) or multiples of 1/4 (model G4); no IEEE rounding",
    "granularity is an int (documented type) or one of the listed fractional constants; granularity == 1 is the documented 'no rounding' "
    "default, so for g == 1 the forwarded value is the limited, unrounded value",
]
OUTSIDE = [
    "IEEE rounding of float // and *", "fractional values off the 1/4 grid where model G4 is used "
    "(int demand with float limits; floats in multi-step histories)", "float granularity other than 0.5 (quick) / 0.25, 0.5, 1.5 (thorough)",
    "nan (rejected by the constructor: checked concretely, by type)",
]


def BOUNDS(tier):
    return {
        "type_configurations": 324,
        "granularity": [1, 2, 3, 0.5] if tier == "quick" else [1, 2, 3, 7, 0.25, 0.5, 1.5, "symbolic (Z, R)"],
        "history_length": 2 if tier == "quick" else 3,
        "increments": 3 if tier == "quick" else 4,
    }


def _limit(ctx, name, typ, sign=1):
    if typ == "inf":
        return sign * INF
    return ctx.num(name, typ)


def _le(a, b):
    return a <= b


def _mk(ctx, tv, ts, tmin, tmax, tb, tsur, g, cls=Standardiser):
    supply = _limit(ctx, "supply", ts)  # 'inf': a pool reporting unbounded supply
    ctx.assume(supply >= 0)
    minimum = _limit(ctx, "minimum", tmin, -1)
    maximum = _limit(ctx, "maximum", tmax, +1)
    backlog = _limit(ctx, "backlog", tb)
    surplus = _limit(ctx, "surplus", tsur)
    if g == "sym":
        g = ctx.num("granularity", "int")
        ctx.assume(g > 0)
    ctx.assume(And(minimum <= maximum, backlog > 0, surplus > 0))
    pool = RecPool(demand=ctx.num("d0", tv), supply=supply,
                   utilisation=ctx.num("u0", "int" if ctx.model == "Z" else "float"),
                   allocation=ctx.num("a0", "int" if ctx.model == "Z" else "float"))
    s = cls(pool, minimum=minimum, maximum=maximum, granularity=g, backlog=backlog,
            surplus=surplus)
    return pool, s, (supply, minimum, maximum, backlog, surplus, g)


def _near(r, t, g):
    if isinstance(r, float) and isinstance(t, float) and r == t:  # both on the same infinite limit: distance 0, not inf - inf
        return True
    return And(r - t < g, t - r < g)


def _check_write(ctx, pool, s, lim, value, tag=""):
    supply, minimum, maximum, backlog, surplus, g = lim
    supply = pool.supply
    t = pool.demand
    lo, hi = supply - backlog, supply + surplus
    ctx.observe(tag + "target.demand", t)
    # 1. min/max always win
    ctx.require(And(minimum <= t, t <= maximum), tag + "target within [minimum, maximum]")
    # 2. supply window unless min/max force otherwise
    ctx.require(Implies(t < lo, t == maximum), tag + "below supply-backlog only if forced by maximum")
    ctx.require(Implies(t > hi, t == minimum), tag + "above supply+surplus only if forced by minimum")
    # 3. no limit interferes -> floor multiple
    one = (g == 1) if not is_sym(g) else None
    f = value // g * g
    if one is True:
        f = value
    elif one is None:
        if g == 1:  # forks on the symbolic granularity
            f = value
    inside = And(lo <= f, f <= hi, minimum <= f, f <= maximum)
    ctx.require(t == f, tag + "forwarded value is the floored value when no limit interferes",
                antecedent=inside)
    # 4. read back
    r = s.demand
    ctx.observe(tag + "readback", r)
    ctx.require(And(minimum <= r, r <= maximum), tag + "readback within [minimum, maximum]")
    ctx.require(Implies(r < lo, r == maximum), tag + "readback below window only if forced")
    ctx.require(Implies(r > hi, r == minimum), tag + "readback above window only if forced")
    ctx.require(_near(r, pool.demand, g), tag + "readback less than one granule from target")
    vin = And(lo <= value, value <= hi, minimum <= value, value <= maximum)
    ctx.require(r == value, tag + "readback is the written value when no limit interferes",
                antecedent=vin)
    return r


def one_write(ctx, tv, ts, tmin, tmax, tb, tsur, g, cls="Standardiser"):
    """arbitrary pre-state, one demand write, read back"""
    klass = {"Standardiser": Standardiser, "Limiter": Limiter, "Coarser": Coarser}[cls]
    pool, s, lim = _mk(ctx, tv, ts, tmin, tmax, tb, tsur, g, klass)
    # arbitrary pre-state: the write must not depend on it
    s._demand = ctx.num("pre_demand", tv)
    u, a, sup = pool.utilisation, pool.allocation, pool.supply
    value = ctx.num("value", tv)
    s.demand = value
    ctx.reach()
    ctx.require(len(pool.writes) == 1, "exactly one write reaches the target")
    _check_write(ctx, pool, s, lim, value)
    # 5. pass-through
    ctx.require(same(s.supply, sup) and same(s.utilisation, u) and same(s.allocation, a),
                "supply/utilisation/allocation passed through unchanged")


def ctor(ctx, tmin, tmax, tb, tsur):
    """the constructor accepts exactly the documented parameter combinations"""
    pool = RecPool(demand=ctx.num("d0", "int"))
    minimum = _limit(ctx, "minimum", tmin, -1)
    maximum = _limit(ctx, "maximum", tmax, +1)
    backlog = _limit(ctx, "backlog", tb)
    surplus = _limit(ctx, "surplus", tsur)
    g = ctx.num("granularity", "int")
    ok = And(minimum <= maximum, backlog > 0, surplus > 0, g > 0)
    try:
        Standardiser(pool, minimum=minimum, maximum=maximum, granularity=g, backlog=backlog,
                     surplus=surplus)
        raised = None
    except ValueError:
        raised = "ValueError"
    ctx.reach()
    ctx.observe("raised", raised)
    if raised is None:
        ctx.require(ok, "constructor accepted an invalid combination")
    else:
        ctx.require(Not(ok), "constructor rejected a valid combination")


OPS = ("write", "supply", "outside")


def history(ctx, tv, ts, tmin, tmax, tb, tsur, g, ops):
    """sequence of operations, a read after each; obligations after every step"""
    pool, s, lim = _mk(ctx, tv, ts, tmin, tmax, tb, tsur, g)
    supply, minimum, maximum, backlog, surplus, g = lim
    for i, op in enumerate(ops):
        tag = "step%d:%s: " % (i, op)
        if op == "write":
            v = ctx.num("v%d" % i, tv)
            n0 = len(pool.writes)
            s.demand = v
            ctx.require(len(pool.writes) == n0 + 1, tag + "exactly one write reaches the target")
            _check_write(ctx, pool, s, lim, v, tag)
        elif op == "supply":
            ns = ctx.num("s%d" % i, ts)
            ctx.assume(ns >= 0)
            before = s._demand
            t = pool.demand
            pool.supply = ns
            n0 = len(pool.writes)
            r = s.demand
            ctx.observe(tag + "readback", r)
            ctx.require(len(pool.writes) == n0, tag + "a read never writes to the target")
            ctx.require(And(r - t < g, t - r < g), tag + "readback less than one granule from target")
            ctx.require(same(s.supply, ns), tag + "supply passed through")
        elif op == "outside":
            d = ctx.num("o%d" % i, tv)
            old_r = s._demand
            pool._demand = d  # somebody else moved the target
            r = s.demand
            ctx.observe(tag + "readback", r)
            moved = Or(old_r - d >= g, d - old_r >= g)
            ctx.require(r == d, tag + "getter resynchronises after a change of a granule or more",
                        antecedent=moved)
            ctx.require(r == old_r, tag + "getter keeps the smooth value below one granule",
                        antecedent=Not(moved))
            ctx.require(And(r - d < g, d - r < g), tag + "readback less than one granule from target")
    ctx.reach()


def increments(ctx, tv, ts, tmin, tmax, tb, tsur, g, n):
    """n times `demand += 1` has the same effect as once `demand += n`"""
    pool, s, lim = _mk(ctx, tv, ts, tmin, tmax, tb, tsur, g)
    v0 = ctx.num("v0", tv)
    s.demand = v0
    # twin standardiser on a twin pool in the same state
    pool2 = RecPool(demand=pool.demand, supply=pool.supply, utilisation=pool.utilisation,
                    allocation=pool.allocation)
    s2 = Standardiser(pool2, minimum=lim[1], maximum=lim[2], granularity=lim[5], backlog=lim[3],
                      surplus=lim[4])
    s2._demand = s._demand
    supply, minimum, maximum, backlog, surplus, g = lim
    r0 = s.demand
    for _ in range(n):
        s.demand += 1
    s2.demand += n
    ctx.reach()
    ctx.observe("t_n_steps", pool.demand)
    ctx.observe("t_one_step", pool2.demand)
    # the read-back value is always the same; the forwarded value is the same whenever the
    # final value r0 + n is not cut by a limit (at saturation the floored value of `limit + 1`
    # and of `limit + n` legitimately differ - the statement's "so" clause is about the
    # unrounded read-back making small increments add up)
    final = r0 + n
    free = And(supply - backlog <= final, final <= supply + surplus, minimum <= final,
               final <= maximum)
    ctx.require(pool.demand == pool2.demand,
                "n increments of 1 reach the same target demand as one of n", antecedent=free)
    ctx.require(s.demand == s2.demand, "n increments of 1 read back the same as one of n")
    ctx.require(s.demand == final, "n increments of 1 add up to n when no limit interferes",
                antecedent=free)


# ---------------------------------------------------------------------------------------------
def _model_for(tv, *others):
    if tv == "int" and all(t != "float" for t in others):
        return "Z"
    if tv == "int":
        return "G4"
    return "R"


def _configs():
    for tv, ts in itertools.product(("int", "float"), repeat=2):
        for tmin, tmax in itertools.product(("int", "float", "inf"), repeat=2):
            for tb, tsur in itertools.product(("int", "float", "inf"), repeat=2):
                yield tv, ts, tmin, tmax, tb, tsur


HIST_CONFIGS = [
    ("int", "int", "int", "int", "int", "int"),
    ("int", "int", "inf", "inf", "int", "int"),
    ("float", "float", "float", "float", "float", "float"),
    ("float", "float", "inf", "inf", "float", "float"),
    ("int", "float", "float", "float", "float", "float"),
    ("int", "int", "float", "float", "inf", "inf"),
    ("float", "int", "int", "int", "int", "int"),
    ("float", "int", "int", "int", "inf", "inf"),
]


def tasks(tier, seed):
    out = []
    gs = [1, 2, 3] if tier == "quick" else [1, 2, 3, 7]
    wit = 3 if tier == "quick" else 1
    for cfg in _configs():
        tv, ts, tmin, tmax, tb, tsur = cfg
        model = _model_for(*cfg)
        for g in gs:
            out.append(Task(MOD, "one_write", dict(tv=tv, ts=ts, tmin=tmin, tmax=tmax, tb=tb,
                                                   tsur=tsur, g=g), model=model,
                            witness_every=wit))
        if tier == "thorough" and model in ("Z", "R") and all(t == tv or t == "inf" for t in cfg):
            out.append(Task(MOD, "one_write", dict(tv=tv, ts=ts, tmin=tmin, tmax=tmax, tb=tb,
                                                   tsur=tsur, g="sym"), model=model,
                            witness_every=wit, name="one_write_symbolic_g"))
    # float demands once more on the 1/4 grid (pure integer arithmetic): code that mixes int() truncation with
    # floor division is decided in milliseconds there, while over the reals it runs into the mixed Int/Real wall
    for cfg in _configs():
        tv, ts, tmin, tmax, tb, tsur = cfg
        if tv != "float":
            continue
        for g in ((2,) if tier == "quick" else (2, 3)):
            out.append(Task(MOD, "one_write", dict(tv=tv, ts=ts, tmin=tmin, tmax=tmax, tb=tb, tsur=tsur, g=g),
                            model="G4", witness_every=wit * 2, name="one_write_float_on_grid"))
    # fractional granularities (accepted by the constructor: granularity > 0), float demands, over the reals
    for cfg in _configs():
        tv, ts, tmin, tmax, tb, tsur = cfg
        if not all(t in ("float", "inf") for t in cfg):  # mixed Int/Real floor quotients do not finish in budget
            continue
        for g in ((0.5,) if tier == "quick" else (0.5, 0.25, 1.5)):
            out.append(Task(MOD, "one_write", dict(tv=tv, ts=ts, tmin=tmin, tmax=tmax, tb=tb, tsur=tsur, g=g),
                            model="R", witness_every=wit * 2, name="one_write_fractional_granularity"))
    # a pool reporting unbounded supply ("every supply"), with a finite backlog: the window is [inf, inf]
    for tv in ("int", "float"):
        for tmin, tmax in itertools.product(("int", "float", "inf"), repeat=2):
            for tb, tsur in itertools.product(("int", "float"), ("int", "float", "inf")):
                if tv == "int" and "float" in (tmin, tmax, tb, tsur) and tier == "quick":
                    continue
                for g in (1, 2):
                    out.append(Task(MOD, "one_write", dict(tv=tv, ts="inf", tmin=tmin, tmax=tmax, tb=tb, tsur=tsur, g=g),
                                    model=_model_for(tv, tmin, tmax, tb, tsur), witness_every=wit,
                                    name="one_write_infinite_supply"))
    # aliases are the same class: one all-int and one all-float configuration each
    for cls in ("Limiter", "Coarser"):
        for cfg in (HIST_CONFIGS[0], HIST_CONFIGS[2]):
            tv, ts, tmin, tmax, tb, tsur = cfg
            out.append(Task(MOD, "one_write", dict(tv=tv, ts=ts, tmin=tmin, tmax=tmax, tb=tb,
                                                   tsur=tsur, g=2, cls=cls),
                            model=_model_for(*cfg), name="one_write_alias"))
    for tmin, tmax, tb, tsur in itertools.product(("int", "float", "inf"), repeat=4):
        model = "Z" if "float" not in (tmin, tmax, tb, tsur) else "R"
        out.append(Task(MOD, "ctor", dict(tmin=tmin, tmax=tmax, tb=tb, tsur=tsur), model=model))
    hl = 2 if tier == "quick" else 3
    hgs = [1, 2] if tier == "quick" else [1, 2, 3]
    for cfg in HIST_CONFIGS:
        tv, ts, tmin, tmax, tb, tsur = cfg
        model = "Z" if "float" not in cfg else "G4"
        for g in hgs:
            for ops in itertools.product(OPS, repeat=hl):
                if "write" not in ops:
                    continue
                out.append(Task(MOD, "history", dict(tv=tv, ts=ts, tmin=tmin, tmax=tmax, tb=tb,
                                                     tsur=tsur, g=g, ops=list(ops)), model=model,
                                witness_every=wit * 3, weight=5))
            for n in ((2, 3) if tier == "quick" else (2, 3, 4)):
                out.append(Task(MOD, "increments", dict(tv=tv, ts=ts, tmin=tmin, tmax=tmax, tb=tb,
                                                        tsur=tsur, g=g, n=n), model=model,
                                witness_every=wit * 3, weight=10 * n))
    return out


def extra(tier, seed):
    """nan is rejected by type (concrete, enumerated - not solver-decided)"""
    nan = float("nan")
    errs = []
    n = 0
    for kw in ("minimum", "maximum", "backlog", "surplus", "granularity"):
        n += 1
        try:
            Standardiser(RecPool(), **{kw: nan})
            errs.append({"harness": "ctor_nan", "label": "nan accepted for %s" % kw,
                         "inputs": {kw: "nan"}, "params": {}, "status": "confirmed",
                         "property": PROPERTY, "kind": "custom", "module": MOD})
        except ValueError:
            pass
    # an unlimited Standardiser stays transparent for a pool reporting infinite supply (supply - backlog is
    # inf - inf = nan there): enumerated, concrete
    inf = float("inf")
    m = 0
    for supply in (inf, 1e308):
        for kw in ({}, {"granularity": 2}, {"surplus": 5.0}, {"minimum": -10.0, "maximum": 1e9}):
            for value in (5.0, -3.5, 0.0, 128.0):
                m += 1
                pool = RecPool(demand=0.0, supply=supply)
                st = Standardiser(pool, **kw)
                st.demand = value
                g = kw.get("granularity", 1)
                want = value if g == 1 else value // g * g
                want = max(want, kw.get("minimum", -inf))
                if not (pool.demand == want and st.demand == max(value, kw.get("minimum", -inf))):
                    errs.append({"harness": "nonfinite_supply", "label": "no limit interferes: the written value (floored) reaches the target",
                                 "inputs": {"supply": repr(supply), "kwargs": repr(kw), "value": value, "target": repr(pool.demand), "readback": repr(st.demand)},
                                 "params": {}, "status": "confirmed", "property": PROPERTY, "kind": "custom", "module": MOD})
    return {"violations": errs, "nan_rejections_checked": n, "nonfinite_supply_states": m}


def replay(v):
    if v.get("harness") == "nonfinite_supply":
        hit = [x for x in extra("quick", 0)["violations"] if x["harness"] == "nonfinite_supply"]
        print("REPRODUCED" if hit else "not reproduced on this tree")
        return 1 if hit else 0
    kw = next(iter(v["inputs"]))
    try:
        Standardiser(RecPool(), **{kw: float("nan")})
    except ValueError:
        print("not reproduced on this tree")
        return 0
    print("REPRODUCED: nan accepted for", kw)
    return 1


def _frac(x):
    from fractions import Fraction
    if isinstance(x, str) and "/" in x:
        return True
    if isinstance(x, float):
        return x != math.floor(x)
    if isinstance(x, Fraction):
        return x.denominator != 1
    return False


def _int_demand_fractional_limit(inputs, params):
    if params.get("tv") != "int":
        return False
    return any(_frac(v) for k, v in inputs.items()
               if k in ("minimum", "maximum", "backlog", "surplus", "supply") or k.startswith("s"))


PREDICATES = {"int_demand_fractional_limit": _int_demand_fractional_limit}
