"""C15 - FactoryPool spawns and releases just enough children (Engine S; R)."""
import trio

import cobald.composite.factory as factory_mod
from cobald.composite.factory import FactoryPool

from ..core import Task
from ..symx import And, Implies, Not, Or
from .common import FakeTrio, RecPool, numeric_stubs, patched, same

# int() / float() / math.floor / math.ceil as seen from the modules under test act on proxies (stubs, listed in evidence)
for _m in (factory_mod,):
    for _mod, _name, _val in numeric_stubs(_m):
        setattr(_mod, _name, _val)

PROPERTY = "C15"
MOD = __name__
FUNCTIONS = [
    "cobald.composite.factory:FactoryPool.__init__",
    "cobald.composite.factory:FactoryPool.children",
    "cobald.composite.factory:FactoryPool.demand",
    "cobald.composite.factory:FactoryPool.supply",
    "cobald.composite.factory:FactoryPool.utilisation",
    "cobald.composite.factory:FactoryPool.allocation",
    "cobald.composite.factory:FactoryPool.run",
    "cobald.composite.factory:FactoryPool._shrink",
    "cobald.composite.factory:FactoryPool._grow",
    "cobald.composite.factory:FactoryPool._reap_children",
    "cobald.composite.factory:FactoryPool._release_child",
]
MANIFEST = {
    "technique": "symbolic execution of FactoryPool adjustments from an arbitrary invariant-satisfying pre-state on z3 Real proxies; SMT decides the cover/minimality obligations",
    "text": "Bounded symbolic model checking of FactoryPool: one adjustment (_grow, _shrink, or a whole run() "
            "cycle through a sleep stub) from an ARBITRARY pre-state satisfying the representation invariant "
            "(<= 3 active + <= 2 released children with symbolic demand/supply/utilisation, symbolic request, "
            "factory children of symbolic demand) is an inductive step covering histories of any length; "
            "histories of 2 cycles with environment actions in between are explored on top. z3 proves cover, "
            "minimality, release discipline and the aggregates for all values on every path. Twelve concrete probes of the same harness cover factories whose children differ in demand.",
    "note": "at most 3 spawns per adjustment (deeper paths are cut and counted); children are well-behaved "
            "(keep the demand they are given, demand >= 0); the harness holds strong references so the WeakSet "
            "mortuary never shrinks; floats are exact reals",
    "design_ref": "DESIGN.md §3 C15",
}
STUBS = ["int / float / math.floor / math.ceil (as seen from the modules under test) accept number proxies", "trio (as seen from cobald.composite.factory) -> sleep yields to the driver"]
ASSUMPTIONS = [
    "children: demand >= 0, supply >= 0, utilisation >= 0, allocation >= 0; released children keep demand 0",
    "pre-state invariant: hatchery and mortuary disjoint, mortuary demands are 0, every child came from the "
    "initial set or the factory", "request >= 0",
]
OUTSIDE = ["requests needing more than 3 spawns in one adjustment (cut, counted)", "IEEE rounding",
           "garbage collection of released children", "the preference order among releasable children"]


def BOUNDS(tier):
    return {"active_children": "0..3", "released_children": "0..1" if tier == "quick" else "0..2",
            "spawns_per_adjustment": "3 (children of symbolic demand); 0..%d unit-demand children in grow_many" % (100 if tier == "quick" else 300), "cycles": 1 if tier == "quick" else
            "1, and 2 with (active children, spawns per adjustment) in {(0,2), (1,2), (2,1)}"}


class Kid(RecPool):
    """child with a deterministic hash: set iteration order must not depend on addresses"""

    def __init__(self, idx, **kw):
        super().__init__(**kw)
        self.idx = idx

    def __hash__(self):
        return self.idx

    def __eq__(self, other):
        return self is other


def _sum(xs):
    t = 0
    for x in xs:
        t = t + x
    return t


class World:
    def __init__(self, ctx, nh, nm, max_spawn=3):
        self.ctx = ctx
        self.made = []
        self.max_spawn = max_spawn
        self.spawn_demand_ok = True
        self.hatch = []
        for i in range(nh):
            k = Kid(i, demand=ctx.num("hd%d" % i), supply=ctx.num("hs%d" % i),
                    utilisation=ctx.num("hu%d" % i), allocation=ctx.num("ha%d" % i), name="h%d" % i)
            ctx.assume(And(k.demand >= 0, k.supply >= 0, k.utilisation >= 0, k.allocation >= 0))
            self.hatch.append(k)
        self.mort = []
        for i in range(nm):
            k = Kid(10 + i, demand=0, supply=ctx.num("ms%d" % i), utilisation=ctx.num("mu%d" % i),
                    allocation=ctx.num("ma%d" % i), name="m%d" % i)
            ctx.assume(And(k.supply >= 0, k.utilisation >= 0, k.allocation >= 0))
            self.mort.append(k)
        self.pool = FactoryPool(*self.hatch, factory=self.make, interval=ctx.num("interval"))
        ctx.assume(self.pool.interval > 0)
        for k in self.mort:
            self.pool._mortuary.add(k)
        self.spawned_now = []

    def make(self):
        ctx = self.ctx
        if len(self.spawned_now) >= self.max_spawn:
            ctx.cut("more than %d spawns in one adjustment" % self.max_spawn)
        i = len(self.made)
        k = Kid(20 + i, demand=ctx.num("fd%d" % i), supply=0, utilisation=ctx.num("fu%d" % i),
                allocation=ctx.num("fa%d" % i), name="f%d" % i)
        ctx.assume(And(k.demand > 0, k.utilisation >= 0, k.allocation >= 0))
        self.made.append(k)
        self.spawned_now.append(k)
        return k

    def everyone(self):
        return self.hatch + self.mort + self.made

    def snapshot(self):
        p = self.pool
        return {
            "hatch": [k for k in self.everyone() if k in p._hatchery],
            "mort": [k for k in self.everyone() if k in p._mortuary],
            "demand": {k: k.demand for k in self.everyone()},
        }


def _check_adjust(ctx, w, pre, target, kind, tag=""):
    """obligations after one adjustment; pre = snapshot before, kind in grow/shrink"""
    p = w.pool
    post = w.snapshot()
    H0, M0 = pre["hatch"], pre["mort"]
    H1, M1 = post["hatch"], post["mort"]
    ctx.observe(tag + "hatchery", sorted(k.name for k in H1))
    ctx.observe(tag + "mortuary", sorted(k.name for k in M1))
    # membership discipline
    ctx.require(not (set(map(id, H1)) & set(map(id, M1))), tag + "no child both active and released")
    ctx.require(all(k in M1 for k in M0), tag + "released children stay released")
    ctx.require(all(k not in H1 for k in M0), tag + "released children are never active again")
    # the harness holds every child strongly, so none can drop out of the weak set of released children
    ctx.require(all(k in H1 or k in M1 for k in H0),
                tag + "a child that stops being active is kept as a released child (its supply still counts)")
    known = set(map(id, w.everyone()))
    ctx.require(all(id(k) in known for k in p.children) and len(p.children) == len(H1) + len(M1),
                tag + "children are only ever created by the factory")
    for k in M1:
        ctx.require(k.demand == 0, tag + "released children have demand 0")
    for k in H1:
        ctx.require(k.demand > 0, tag + "children with no demand left are released")
    new = [k for k in w.spawned_now]
    ctx.require(all(k in H1 or k in M1 for k in new) and len(new) == len([k for k in H1 + M1 if k in w.made and k in new]),
                tag + "factory call count equals the number of new children")
    released = [k for k in H0 if k in M1]
    kept = [k for k in H0 if k in H1]
    active_sum = _sum(k.demand for k in H1)
    if kind == "grow":
        ctx.require(all(pre["demand"][k] <= 0 for k in released) if released else True,
                    tag + "growing releases only children without demand")
        ctx.require(active_sum >= target, tag + "after growing the active demand covers the request")
        if new:
            last = new[-1]
            ctx.require(active_sum - last.demand < target,
                        tag + "the request would not be covered without the child spawned last")
    else:
        ctx.require(not new, tag + "shrinking never spawns")
        pre_sum = _sum(pre["demand"][k] for k in H0)
        for k in released:
            ctx.require(pre["demand"][k] == 0, tag + "nothing with demand is released when there is no excess",
                        antecedent=pre_sum <= target)
        ctx.require(active_sum >= target, tag + "after releasing, the remaining active demand still covers the request",
                    antecedent=pre_sum >= target)
        excess = active_sum - target
        for k in kept:
            ctx.require(k.demand > excess, tag + "no child that could still be released is kept")
        for k in kept:
            ctx.require(same(k.demand, pre["demand"][k]) and not k.writes,
                        tag + "kept children are not touched")


def _check_aggregates(ctx, w, tag=""):
    p = w.pool
    kids = list(p.children)
    ctx.require(p.supply == _sum(k.supply for k in kids), tag + "supply is the sum over all children")
    for attr in ("utilisation", "allocation"):
        val = getattr(p, attr)
        ctx.observe(tag + attr, val)
        withs = [(k.supply > 0, getattr(k, attr)) for k in kids]
        n = _sum(__import__("vf.symx", fromlist=["Ite"]).Ite(c, 1, 0) for c, _ in withs) if kids else 0
        tot = _sum(__import__("vf.symx", fromlist=["Ite"]).Ite(c, x, 0.0) for c, x in withs) if kids else 0
        if not kids:
            ctx.require(val == 1.0, tag + attr + " is 1.0 without children")
            continue
        ctx.require(val == 1.0, tag + attr + " is 1.0 when no child has supply", antecedent=(n == 0))
        ctx.require(val * n == tot, tag + attr + " is the mean over children with supply", antecedent=(n > 0))


def grow(ctx, nh, nm):
    w = World(ctx, nh, nm)
    target = ctx.num("target")
    ctx.assume(target >= 0)
    for k in w.everyone():
        k.writes.clear()
    pre = w.snapshot()
    w.pool._grow(target)
    ctx.reach()
    _check_adjust(ctx, w, pre, target, "grow")
    _check_aggregates(ctx, w)


def grow_many(ctx, limit):
    """one adjustment that needs many children: unit-demand children, symbolic integer request in 0..limit.
    The spawn loop forks once per child, so there is one path per request size."""
    made = []

    def make():
        if len(made) > limit:
            ctx.cut("more than %d spawns" % limit)
        k = Kid(100 + len(made), demand=1, supply=0, utilisation=1, allocation=1, name="u%d" % len(made))
        made.append(k)
        return k

    p = FactoryPool(factory=make, interval=1)
    target = ctx.num("target", "int")
    ctx.assume(And(target >= 0, target <= limit))
    p._grow(target)
    ctx.reach()
    ctx.observe("spawned", len(made))
    active = [k for k in made if k in p._hatchery]
    ctx.require(_sum(k.demand for k in active) >= target, "after growing the active demand covers the request")
    ctx.require(len(made) == target, "the request would not be covered without the child spawned last")
    ctx.require(len(p.children) == len(made), "children are only ever created by the factory")


def shrink(ctx, nh, nm):
    w = World(ctx, nh, nm)
    target = ctx.num("target")
    ctx.assume(target >= 0)
    for k in w.everyone():
        k.writes.clear()
    pre = w.snapshot()
    w.pool._shrink(target)
    ctx.reach()
    _check_adjust(ctx, w, pre, target, "shrink")
    _check_aggregates(ctx, w)


def cycles(ctx, nh, nm, n, max_spawn=3):
    """whole run() cycles through the sleep stub, environment actions in between"""
    w = World(ctx, nh, nm, max_spawn=max_spawn)
    p = w.pool
    calls = []
    for name in ("_shrink", "_grow"):
        real = getattr(p, name)

        def wrap(target, _real=real, _name=name):
            calls.append((_name, target))
            return _real(target)

        setattr(p, name, wrap)
    with patched((factory_mod, "trio", FakeTrio(trio))):
        coro = p.run()
        try:
            y = coro.send(None)
            for j in range(n):
                tag = "cycle%d: " % j
                # environment: request, children changing supply/utilisation, a child disabling itself
                req = ctx.num("request_%d" % j)
                ctx.assume(req >= 0)
                p.demand = req
                ctx.require(same(p.demand, req), tag + "demand is acknowledged as written")
                for k in w.hatch + w.made:
                    if k in p._hatchery and j > 0:
                        k.supply = ctx.num("%s_s_%d" % (k.name, j))
                        k.utilisation = ctx.num("%s_u_%d" % (k.name, j))
                        ctx.assume(And(k.supply >= 0, k.utilisation >= 0))
                        if ctx.flag("%s_quits_%d" % (k.name, j)):
                            k._demand = 0
                for k in w.everyone():
                    k.writes.clear()
                w.spawned_now = []
                pre = w.snapshot()
                supply = p.supply
                y = coro.send(None)
                ctx.require(y[0] == "sleep" and same(y[1], p.interval), tag + "sleeps one interval")
                ctx.require(len(calls) == j + 1, tag + "one adjustment per cycle")
                kind, target = calls[-1]
                ctx.require(same(target, req), tag + "adjusts towards the current demand")
                if kind == "_shrink":
                    ctx.require(supply > req, tag + "shrinks only when supply exceeds demand")
                else:
                    ctx.require(supply <= req, tag + "grows when supply does not exceed demand")
                _check_adjust(ctx, w, pre, req, "shrink" if kind == "_shrink" else "grow", tag)
                _check_aggregates(ctx, w, tag)
        finally:
            coro.close()
    ctx.reach()


def two_pools(ctx):
    """two factory pools alive at once share nothing"""
    wa = World(ctx, 2, 0)
    kb = [Kid(50, demand=ctx.num("bd0"), supply=ctx.num("bs0"), utilisation=ctx.num("bu0"), allocation=ctx.num("ba0"), name="b0")]
    ctx.assume(And(kb[0].demand > 0, kb[0].supply >= 0, kb[0].utilisation >= 0, kb[0].allocation >= 0))
    pb = FactoryPool(*kb, factory=lambda: None, interval=1)
    ta = ctx.num("target_a")
    ctx.assume(ta >= 0)
    wa.pool._shrink(ta)
    ctx.reach()
    ctx.require(len(pb.children) == 1 and pb.children[0] is kb[0], "a pool lists only its own children")
    ctx.require(pb.supply == kb[0].supply, "a pool's supply is the sum over its own children")
    _check_aggregates(ctx, wa)
    keep = (wa, kb)
    del keep


def bad_factory(ctx):
    """a factory child without demand is refused"""
    d = ctx.num("d")
    ctx.assume(d <= 0)
    kid = Kid(0, demand=d)
    p = FactoryPool(factory=lambda: kid, interval=1)
    t = ctx.num("target")
    ctx.assume(t > 0)
    try:
        p._grow(t)
        raised = False
    except AssertionError:
        raised = True
    ctx.reach()
    ctx.require(raised, "factory children must come with initial demand")


def init(ctx, n):
    kids = [Kid(i, demand=ctx.num("d%d" % i), supply=ctx.num("s%d" % i)) for i in range(n)]
    for k in kids:
        ctx.assume(And(k.demand >= 0, k.supply >= 0))
    p = FactoryPool(*kids, factory=lambda: None)
    ctx.reach()
    ctx.require(p.demand == _sum(k.demand for k in kids), "initial demand is the sum of the children's demands")
    ctx.require(len(p.children) == n and all(k in p._hatchery for k in kids), "initial children are active")
    ctx.require(p.supply == _sum(k.supply for k in kids), "supply is the sum")


def tasks(tier, seed):
    out = []
    nm_max = 1 if tier == "quick" else 2
    for nh in range(0, 4):
        for nm in range(0, nm_max + 1):
            if nh == 3 and nm == 2:
                continue
            out.append(Task(MOD, "grow", dict(nh=nh, nm=nm), weight=3 ** nh))
            out.append(Task(MOD, "shrink", dict(nh=nh, nm=nm), weight=6 ** nh, shards=4 if nh == 3 else 1))
    for nh in range(0, 3 if tier == "quick" else 4):
        out.append(Task(MOD, "cycles", dict(nh=nh, nm=1 if nh < 3 else 0, n=1), weight=8 ** nh,
                        shards=1 if nh < 2 else (4 if nh == 2 else 16)))
    if tier == "quick":
        # state must not be carried from one cycle to the next: a small two-cycle history in quick, too
        out.append(Task(MOD, "cycles", dict(nh=1, nm=0, n=2, max_spawn=1), weight=300, shards=16))
    out.append(Task(MOD, "two_pools", model="R", weight=5))
    if tier == "thorough":
        out.append(Task(MOD, "cycles", dict(nh=0, nm=0, n=2, max_spawn=2), weight=50, shards=4))
        out.append(Task(MOD, "cycles", dict(nh=1, nm=0, n=2, max_spawn=2), weight=500, shards=48))
        out.append(Task(MOD, "cycles", dict(nh=2, nm=0, n=2, max_spawn=1), weight=900, shards=64))
    out.append(Task(MOD, "grow_many", dict(limit=100 if tier == "quick" else 300), model="Z", weight=200))
    out.append(Task(MOD, "bad_factory"))
    for n in range(0, 4):
        out.append(Task(MOD, "init", dict(n=n)))
    return out


def PROBES(tier):
    """factories whose children differ in demand (code that sizes a batch from the first child cannot be carried
    symbolically through range()); run through the same grow harness on concrete numbers"""
    out = []
    for demands, target in (((4, 1, 1), 6), ((1, 4, 4), 6), ((2, 2, 5), 3), ((1, 1, 1), 3), ((5, 1, 1), 5.5), ((0.5, 0.25, 8), 0.75)):
        inputs = {"interval": 1, "target": target}
        for i, d in enumerate(demands):
            inputs.update({"fd%d" % i: d, "fu%d" % i: 1.0, "fa%d" % i: 1.0})
        out.append(("grow", dict(nh=0, nm=0), inputs, "R"))
        inputs2 = dict(inputs, hd0=0.5, hs0=1.0, hu0=1.0, ha0=1.0)
        out.append(("grow", dict(nh=1, nm=0), inputs2, "R"))
    return out


PREDICATES = {}
